"""The only place that reads structure out of library objects.

A model is read through its public attributes (`propositions`, `id`, `bounds`, `sign`, `value`,
`generated_id`); leaves are `puan.variable` instances. Reading failures raise AdapterMismatch,
which a shard reports as *inconclusive*, never as a violation.
"""
import puan


class AdapterMismatch(Exception):
    pass


def is_leaf(n):
    return isinstance(n, puan.variable)


def _b(n):
    lo, hi = n.bounds.as_tuple()
    return (int(lo), int(hi))


def graph_of(model):
    """returns (graph, top id, info). For ids with several *different* definitions info['ambivalent'] lists
    them (the first definition met in a pre-order walk is kept in the graph)."""
    graph, info = {}, {"ambivalent": [], "dup_child": [], "ref_leaf": [], "prefixed": [], "generated": set(),
                       "objects": {}}
    try:
        seen_obj = set()
        stack = [model]
        while stack:
            n = stack.pop()
            if id(n) in seen_obj:
                continue
            seen_obj.add(id(n))
            if is_leaf(n):
                node = {"leaf": True, "b": _b(n), "sign": 1, "value": 0, "ch": []}
            else:
                ch = [c.id for c in n.propositions]
                if len(set(ch)) != len(ch):
                    info["dup_child"].append(n.id)
                node = {"leaf": False, "b": _b(n), "sign": int(n.sign), "value": int(n.value), "ch": ch}
                if getattr(n, "generated_id", False):
                    info["generated"].add(n.id)
                if node["b"][0] == node["b"][1]:
                    info["prefixed"].append(n.id)
                stack.extend(n.propositions)
            prev = graph.get(n.id)
            if prev is None:
                graph[n.id] = node
                info["objects"][n.id] = n
            elif not same_def(prev, node):
                if prev["leaf"] != node["leaf"] and prev["b"] == node["b"]:
                    # a leaf carrying the id of a compound with equal bounds: the library's reference idiom
                    info["ref_leaf"].append(n.id)
                    if prev["leaf"]:
                        graph[n.id] = node
                        info["objects"][n.id] = n
                else:
                    info["ambivalent"].append(n.id)
        return graph, model.id, info
    except AdapterMismatch:
        raise
    except Exception as e:  # attribute renamed, type changed ...
        raise AdapterMismatch(f"{type(e).__name__}: {e}")


def same_def(a, b):
    if a["leaf"] != b["leaf"] or a["b"] != b["b"]:
        return False
    if a["leaf"]:
        return True
    return a["sign"] == b["sign"] and a["value"] == b["value"] and sorted(map(repr, a["ch"])) == sorted(map(repr, b["ch"]))


def acyclic(graph, top):
    from . import refmodel
    try:
        refmodel.topo(graph, top)
        return True
    except ValueError:
        return False
    except KeyError:
        return False


def well_defined(model):
    """the statement of C10: acyclic id graph, no node lists a child twice, one definition per id.
    returns (ok, reasons, graph, top, info)"""
    graph, top, info = graph_of(model)
    reasons = []
    if info["ambivalent"]:
        reasons.append("ambivalent")
    if info["dup_child"]:
        reasons.append("dup_child")
    if not acyclic(graph, top):
        reasons.append("cycle")
    return (not reasons), reasons, graph, top, info


def validated(model, need_no_prefixed=True, allow_ref_leaf=False):
    """model is in the common domain of C01..C08/C16: errors()==[] and the harness's own walk agrees,
    no reference-leaf idiom, (optionally) no pre-fixed compound. returns (graph, top, info) or None"""
    if is_leaf(model):
        return None
    ok, reasons, graph, top, info = well_defined(model)
    if not ok:
        return None
    if info["ref_leaf"] and not allow_ref_leaf:
        return None
    if need_no_prefixed and info["prefixed"]:
        return None
    try:
        errs = model.errors()
    except Exception:
        return None
    if errs:
        return None
    return graph, top, info


def model_text(model):
    try:
        return model.to_text() if not is_leaf(model) else repr(model)
    except Exception as e:
        return f"<to_text failed: {e}>"
