"""Seeded generators of *recipes* (JSON-able ASTs) and the builder recipe -> library objects.

A recipe node: {"k": kind, "id": explicit id or None, "args": [...], "value": int, "sign": +-1|None,
                "default": [leaf ids] , "label": str (for identity sharing)}
leaves: {"k": "var", "id": str, "b": [lo, hi]}  (puan.variable)  or {"k": "str", "id": str} (bare string)
sharing: {"k": "ref", "to": label}  -> the very same object that was built for the labelled node
"""
import puan
import puan.logic.plog as pg

LEAF_IDS = ["a", "b", "c", "d", "e", "f", "g", "h", "i", "j", "k", "l"]
ODD_IDS = ["", " ", "a,b", "x'y", "(", ")", "ä", "日本", "VARx", "0", "1", "A", "-1", "a b", "\n", "\\", '"q"', "ab", "bc"]
INT16 = [(-32768, 32767), (0, 32767), (-32768, 0)]
HUGE = [(0, 3_000_000_000), (-3_000_000_000, 5), (2_500_000_000, 2_500_000_003)]
WINDOWS = [(32760, 32775), (-32775, -32762), (70000, 70003), (-100002, -100000), (32767, 32769)]      # narrow ranges beyond 16 bits (enumerable)
TWINS = [((0, 3), (1, 2)), ((-1, 3), (-2, 3)), ((-1, 1), (-2, 1)), ((0, 5), (2, 3))]

KINDS = ["All", "Any", "AtLeast", "AtLeastS", "AtMost", "Xor", "ExactlyOne", "XNor", "Imply", "Not"]


class Item(puan.variable):
    """applications subclass puan.variable for their items (the repository's tests do so too)"""
    pass


class Opts:
    def __init__(self, **kw):
        self.depth = 3
        self.maxfan = 4
        self.nleaf = 5
        self.p_int = 0.3            # probability a leaf is integer valued
        self.p_big = 0.2            # ... of which int16 extreme
        self.p_const_leaf = 0.12    # ... of which constant (k,k)
        self.p_huge = 0.0           # ... of which wider than 32 bits (only where the oracle is written in Python ints)
        self.p_window = 0.0         # ... of which a narrow window beyond 16 bits
        self.p_explicit = 0.5
        self.p_share = 0.12         # identity sharing of an already built sub-model
        self.p_copy = 0.05          # equal copy of an already generated sub-recipe
        self.p_alias = 0.06         # the same definition once more, written with another class (Any(..) vs AtLeast(1,..) vs the inside of Xor(..))
        self.p_str = 0.1            # bare string leaf (only for boolean leaves)
        self.p_subclass = 0.0       # pool whose leaves are instances of a subclass of puan.variable
        self.odd_ids = 0.15
        self.kinds = KINDS
        self.p_leaf = 0.45
        self.neg_bounds = True
        self.__dict__.update(kw)


def make_pool(rng, o):
    n = rng.randint(max(1, min(2, o.nleaf)), o.nleaf)
    base = list(LEAF_IDS)
    if rng.random() < o.odd_ids:
        base = base[:4] + rng.sample(ODD_IDS, 6)
    ids = rng.sample(base, min(n, len(base)))
    pool = []
    sub = rng.random() < o.p_subclass
    for name in ids:
        if rng.random() < o.p_int:
            t = rng.random()
            if t < o.p_const_leaf:
                k = rng.randint(-3 if o.neg_bounds else 0, 3)
                b = (k, k)
            elif t < o.p_const_leaf + o.p_big:
                b = rng.choice(INT16) if o.neg_bounds else (0, 32767)
            elif t < o.p_const_leaf + o.p_big + o.p_huge:
                b = rng.choice(HUGE)
            elif t < o.p_const_leaf + o.p_big + o.p_huge + o.p_window:
                b = rng.choice(WINDOWS)
            else:
                lo = rng.randint(-3 if o.neg_bounds else 0, 2)
                b = (lo, lo + rng.randint(1, 4))
            pool.append({"k": "var", "id": name, "b": list(b)})
        else:
            pool.append({"k": "var", "id": name, "b": [0, 1]})
    if sub:
        for l in pool:
            l["cls"] = "sub"
    return pool


class IdGen:
    FORMS = ["P%d", "Q %d", "r,%d", "ü%d", "VAR%d", "VARIANT_%d"]

    def __init__(self, rng, odd=False):
        self.i = 0
        self.lab = 0
        self.odd = odd

    def next(self):
        self.i += 1
        return (self.FORMS[self.i % len(self.FORMS)] if self.odd else "P%d") % self.i


def gen_model(rng, o=None, pool=None, idgen=None, made=None, depth=None, top=True):
    """random recipe of a compound proposition"""
    o = o or Opts()
    pool = pool if pool is not None else make_pool(rng, o)
    idgen = idgen or IdGen(rng, odd=rng.random() < o.odd_ids)
    made = made if made is not None else []
    depth = o.depth if depth is None else depth

    def leaf():
        l = dict(rng.choice(pool))
        if l["b"] == [0, 1] and rng.random() < o.p_str:
            return {"k": "str", "id": l["id"]}
        return l

    def sub(d):
        r = rng.random()
        if made and r < o.p_share:
            m = rng.choice(made)
            if m.get("label") is None:
                idgen.lab += 1
                m["label"] = "L%d" % idgen.lab
            return {"k": "ref", "to": m["label"], "_of": m}
        if made and r < o.p_share + o.p_copy:
            import copy
            orig = rng.choice(made)
            c = copy.deepcopy(strip(orig))
            _unlabel(c)
            c["_copy_of"] = id(orig)
            return c
        if made and r < o.p_share + o.p_copy + o.p_alias:
            a = alias_of(rng.choice(made))
            if a is not None:
                return a
        if d <= 0 or r > 1 - o.p_leaf:
            return leaf()
        m = gen_model(rng, o, pool, idgen, made, d, top=False)
        return m

    k = rng.choice(o.kinds)
    vid = idgen.next() if rng.random() < o.p_explicit else None
    node = {"k": k, "id": vid, "args": []}
    if k == "Imply":
        node["args"] = [sub(depth - 1), sub(depth - 1)]
        if _rid(node["args"][0]) == _rid(node["args"][1]):
            node["args"][1] = leaf()
    elif k == "Not":
        node["id"] = None
        node["args"] = [sub(depth - 1)]
    else:
        n = rng.randint(1, o.maxfan)
        seen = set()
        for _ in range(n):
            c = sub(depth - 1)
            key = _rid(c)
            if key in seen:
                continue
            seen.add(key)
            node["args"].append(c)
        m = len(node["args"])
        if k == "AtLeast":
            node["value"] = rng.randint(-2, m + 1)
        elif k == "AtLeastS":
            node["k"] = "AtLeast"
            node["value"] = rng.randint(-3, m + 1)
            node["sign"] = rng.choice([-1, 1])
        elif k == "AtMost":
            node["value"] = rng.randint(-1, m)
    if node["k"] != "Not":
        made.append(node)
    return node


def alias_of(m):
    """the definition of node m written with another class (identical id, sign, value, children)"""
    import copy
    if any(a["k"] == "ref" for a in m["args"]):
        return None
    args = copy.deepcopy(strip(m["args"]))
    for a in args:
        _unlabel(a)
    k = m["k"]
    if k == "Any":
        out = {"k": "AtLeast", "id": m.get("id"), "args": args, "value": 1}
    elif k == "All" and len(args) >= 1:
        out = {"k": "AtLeast", "id": m.get("id"), "args": args, "value": len(args)}
    elif k == "AtLeast" and m.get("value") == 1 and m.get("sign") in (None,) :
        out = {"k": "Any", "id": m.get("id"), "args": args}
    elif k in ("Xor", "ExactlyOne") and not m.get("id"):
        out = {"k": "Any", "id": None, "args": args}          # collides with the AtLeast(1, ..) inside the Xor
    else:
        return None
    if m.get("fix") is not None:
        out["fix"] = m["fix"]
    out["_copy_of"] = id(m)
    return out


def _rid(r):
    """identity of a child for duplicate avoidance"""
    if r["k"] in ("var", "str"):
        return ("leaf", r["id"])
    if r["k"] == "ref":
        return ("node", id(r["_of"]))
    return ("node", r.get("_copy_of", id(r)))


def strip(r):
    """drop generator-private keys (so the recipe is JSON-able)"""
    if isinstance(r, dict):
        return {k: strip(v) for k, v in r.items() if not k.startswith("_")}
    if isinstance(r, list):
        return [strip(v) for v in r]
    return r


def _unlabel(r):
    if isinstance(r, dict):
        r.pop("label", None)
        for a in r.get("args", ()):
            _unlabel(a)


def refs_resolvable(r):
    """a ref must point to a node that is built *before* it in build order (depth first, args in order)"""
    seen = set()
    ok = True

    def walk(n):
        nonlocal ok
        if n["k"] == "ref":
            if n["to"] not in seen:
                ok = False
            return
        for a in n.get("args", ()):
            walk(a)
        if n.get("label") is not None:
            seen.add(n["label"])
    walk(r)
    return ok


# ----------------------------------------------------------------------------- builder
def build(r, env=None, cc=None):
    """recipe -> library object, through the public constructors only"""
    env = {} if env is None else env
    k = r["k"]
    if k == "var":
        b = _bounds_form(r["b"], r.get("b_form"))
        if r.get("cls") == "sub":
            return Item(r["id"], bounds=b)        # an instance of a subclass of puan.variable
        return puan.variable(r["id"], bounds=b)
    if k == "str":
        return r["id"]
    if k == "ref":
        return env[r["to"]]
    args = [build(a, env, cc) for a in r["args"]]
    vid = r.get("id")
    if r.get("fix") is not None and vid is not None:
        # a sub-proposition pre-fixed to a constant by the bounds of its own variable
        vid = puan.variable(vid, bounds=(int(r["fix"]), int(r["fix"])))
    if r.get("via") == "from_list" and k in ("All", "Any", "Xor", "ExactlyOne", "XNor"):
        # the alternative constructors
        m = {"All": pg.All, "Any": pg.Any, "Xor": pg.Xor, "ExactlyOne": pg.ExactlyOne, "XNor": pg.XNor}[k].from_list(args, variable=vid)
    elif k == "All":
        m = pg.All(*args, variable=vid)
    elif k == "Any":
        m = pg.Any(*args, variable=vid)
    elif k == "AtLeast":
        m = pg.AtLeast(_num_form(r["value"], r.get("v_form")), _as_iterable(args, r.get("iter")), variable=vid, sign=_sign_form(r.get("sign"), r.get("s_form")))
    elif k == "AtMost":
        m = pg.AtMost(r["value"], _as_iterable(args, r.get("iter")), variable=vid)
    elif k == "Xor":
        m = pg.Xor(*args, variable=vid)
    elif k == "ExactlyOne":
        m = pg.ExactlyOne(*args, variable=vid)
    elif k == "XNor":
        m = pg.XNor(*args, variable=vid)
    elif k == "Imply":
        m = pg.Imply(args[0], args[1], variable=vid)
    elif k == "Not":
        m = pg.Not(args[0])
    elif k == "neg":
        m = args[0].negate()
    elif k in ("ccAny", "ccXor", "Stingy"):
        import puan.modules.configurator as ccm
        dflt = r.get("default") or None
        if dflt and r.get("default_form") == "var":
            dflt = [puan.variable(d) for d in dflt]                 # the default named by a variable object instead of its id
        if k in ("ccAny", "ccXor") and r.get("via") == "from_list":
            m = (ccm.Any if k == "ccAny" else ccm.Xor).from_list(args, variable=vid, **({"default": dflt} if dflt else {}))
        elif k == "ccAny":
            m = ccm.Any(*args, default=dflt, variable=vid)
        elif k == "ccXor":
            m = ccm.Xor(*args, default=dflt, variable=vid)
        else:
            m = ccm.StingyConfigurator(*args, id=vid)
            if r.get("prequery"):
                # the object has already answered a structural question before the workload uses it (whatever that may have remembered)
                try:
                    q = r["prequery"]
                    {"flatten": m.flatten, "leafs": m.leafs, "default_prios": lambda: m.default_prios, "ge_polyhedron": lambda: m.ge_polyhedron,
                     "variables": lambda: m.variables, "to_text": m.to_text, "errors": m.errors}[q]()
                except (KeyboardInterrupt, SystemExit):
                    raise
                except BaseException:          # incl. pyo3 panics of the native wheel on pre-fixed sub-propositions (not this question's matter)
                    pass
    else:
        raise KeyError(k)
    if r.get("label") is not None:
        env[r["label"]] = m
    return m


def _bounds_form(b, form):
    """the accepted ways of writing bounds: tuple, list, numpy array, numpy integers, a Bounds object, one int for a constant"""
    import numpy
    lo, hi = int(b[0]), int(b[1])
    if form == "list":
        return [lo, hi]
    if form == "ndarray":
        return numpy.array([lo, hi])
    if form == "npints":
        return (numpy.int64(lo), numpy.int64(hi))
    if form == "Bounds":
        return puan.Bounds(lo, hi)
    if form == "int" and lo == hi:
        return lo
    return (lo, hi)


def _num_form(v, form):
    import numpy
    return numpy.int64(v) if form == "np" else v


def _sign_form(sign, form):
    import numpy
    if sign is None:
        return None
    if form == "enum":
        return puan.Sign(sign)
    if form == "np":
        return numpy.int64(sign)
    return sign


def apply_forms(r, rng, p=0.5):
    """writes the same recipe with other (equivalent) argument forms"""
    for n in _walk(r):
        if n["k"] == "var" and rng.random() < p:
            n["b_form"] = rng.choice(["list", "ndarray", "npints", "Bounds", "int", "tuple"])
        if n["k"] == "AtLeast":
            if rng.random() < p:
                n["v_form"] = rng.choice(["np", None])
            if n.get("sign") is not None and rng.random() < p:
                n["s_form"] = rng.choice(["enum", "np", "int"])
    return r


def _as_iterable(args, how):
    """the propositions of AtLeast/AtMost may arrive in any iterable, also a one-shot one"""
    if how == "gen":
        return (a for a in args)
    if how == "map":
        return map(lambda a: a, args)
    if how == "tuple":
        return tuple(args)
    if how == "iter":
        return iter(args)
    return args


def fresh(r):
    """a freshly built object for every call (the known C09 rebinding must not contaminate later observations)"""
    return build(r, {})


# ----------------------------------------------------------------------------- hostile twins
def twins(recipe, rng, n=2):
    """variants of a recipe that collide with it under the library's own hash/eq functions while meaning something else:
    leaf bounds with an equal hash sum ((lo,hi) -> (lo+1,hi-1), (-1,k) <-> (-2,k)), bounds swapped between two leaves,
    thresholds -1 <-> -2 (hash(-1) == hash(-2)). A memo keyed on hash/eq hands the twin the original's answer."""
    import copy
    out = []
    leaves = {}
    for nd in _walk(recipe):
        if nd["k"] == "var":
            leaves.setdefault(nd["id"], tuple(nd["b"]))
    for _ in range(n):
        t = copy.deepcopy(recipe)
        kind = rng.choice(["shrink", "shrink", "swap", "value", "force"])
        changed = False
        if kind == "shrink":
            cand = [i for i, (lo, hi) in leaves.items() if hi - lo >= 2 or lo in (-1, -2)]
            if cand:
                i = rng.choice(cand)
                lo, hi = leaves[i]
                nb = (lo + 1, hi - 1) if hi - lo >= 2 and rng.random() < 0.7 else ((-2, hi) if lo == -1 else (-1, hi) if lo == -2 else (lo + 1, hi - 1))
                if nb[0] <= nb[1]:
                    _set_bounds(t, i, nb)
                    changed = True
        elif kind == "swap":
            ids = [i for i in leaves]
            pairs = [(a, b) for a in ids for b in ids if a < b and leaves[a] != leaves[b]]
            if pairs:
                a, b = rng.choice(pairs)
                _set_bounds(t, a, leaves[b])
                _set_bounds(t, b, leaves[a])
                changed = True
        elif kind == "value":
            cand = [nd for nd in _walk(t) if nd["k"] in ("AtMost",) and nd.get("value") in (1, 2)] + \
                   [nd for nd in _walk(t) if nd["k"] == "AtLeast" and nd.get("value") in (-1, -2)]
            if cand:
                nd = rng.choice(cand)
                nd["value"] = {1: 2, 2: 1, -1: -2, -2: -1}[nd["value"]]
                changed = True
        else:
            # force a colliding pair on a boolean leaf pair of the base: (0,3)/(1,2) cannot be told apart by Bounds.__hash__
            ids = list(leaves)
            if ids:
                i = rng.choice(ids)
                b1, b2 = rng.choice(TWINS)
                _set_bounds(recipe, i, b1)       # NOTE: modifies the base recipe too (done before anything is built)
                t = copy.deepcopy(recipe)
                _set_bounds(t, i, b2)
                leaves[i] = tuple(b1)
                changed = True
        if changed:
            out.append(t)
    return out


def _walk(r):
    yield r
    for a in r.get("args", ()):
        yield from _walk(a)


def _set_bounds(r, leaf_id, b):
    for nd in _walk(r):
        if nd["k"] == "var" and nd["id"] == leaf_id:
            nd["b"] = [int(b[0]), int(b[1])]
        elif nd["k"] == "str" and nd["id"] == leaf_id:
            nd["k"] = "var"
            nd["b"] = [int(b[0]), int(b[1])]
