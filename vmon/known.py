"""Mechanism classifiers for known findings.

A violating observation is matched to a finding only if the classifier of its property recognises
the *mechanism* from the recipe / arguments / writer facts recorded with the observation -- never
from a case hash or a random value. Anything the classifier does not explain stays a VIOLATION.
Whether a recognised mechanism is actually an *open* finding is decided by run.py from
known_findings.json (a `fixed` or unlisted mechanism is reported as a violation again).
"""


def _c09(sub, detail, facts, case):
    # assume()/evaluate*() rebinding `variable` of a node whose id is named in the dictionary
    if facts.get("mechanism") == "assume-rebinds-named-node":
        return "assume-rebinds-named-node"
    return None


def _c16(sub, detail, facts, case):
    # a helper id shared by a non-default branch (prio -2) and an identical plain rule: which of the two objects
    # survives flatten()'s set() decides the default priority of that id, and the JSON round trip changes the
    # class of the plain rule (cc.Any without default -> pg.Any), hence which one survives
    if sub in ("config:default-prios", "config:polyhedron") and facts.get("prio_ambiguous_shared_helper"):
        return "prio-ambiguous-shared-helper"
    return None


CLASSIFIERS = {
    "C16": _c16,
    "C09": _c09,
}


def classifier_for(prop):
    return CLASSIFIERS.get(prop)
