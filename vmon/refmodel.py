"""Independent executable models. No `puan` import here: everything works on plain data
(id graphs read at the API boundary, recipes, numpy arrays, Python big ints).

Graph: dict id -> node, node = {"leaf": bool, "b": (lo, hi), "sign": +-1, "value": int, "ch": [ids]}
"""
import hashlib
import itertools

import numpy as np


# ----------------------------------------------------------------------------- truth
def topo(graph, top):
    """children before parents; raises ValueError on a cycle"""
    order, state = [], {}
    stack = [(top, iter(graph[top]["ch"] if not graph[top]["leaf"] else ()))]
    state[top] = 1
    while stack:
        nid, it = stack[-1]
        for c in it:
            s = state.get(c)
            if s == 1:
                raise ValueError("cycle")
            if s is None:
                state[c] = 1
                stack.append((c, iter(graph[c]["ch"] if not graph[c]["leaf"] else ())))
                break
        else:
            state[nid] = 2
            order.append(nid)
            stack.pop()
    return order


def truth(graph, top, x, overrides=None, order=None):
    """value of every node reachable from top.
    leaf: x[id]; compound: 1 if sign*sum(children) >= value else 0.
    A node named in `overrides` or whose own bounds are constant takes that constant."""
    overrides = overrides or {}
    val = {}
    for nid in (order or topo(graph, top)):
        n = graph[nid]
        if nid in overrides:
            val[nid] = overrides[nid]
        elif n["leaf"]:
            val[nid] = x[nid]
        elif n["b"][0] == n["b"][1]:
            val[nid] = n["b"][0]
        else:
            s = n["sign"] * sum(val[c] for c in n["ch"])
            val[nid] = 1 if s >= n["value"] else 0
    return val


def visible(graph, top, overrides=None):
    """ids that an evaluation must report: reachable from top without passing *through* a node that
    is fixed (by override or constant own bounds) -- a fixed node is reported, its subtree need not be"""
    overrides = overrides or {}
    seen, todo = set(), [top]
    while todo:
        nid = todo.pop()
        if nid in seen:
            continue
        seen.add(nid)
        n = graph[nid]
        if n["leaf"] or nid in overrides or n["b"][0] == n["b"][1]:
            continue
        todo.extend(n["ch"])
    return seen


def leaves(graph, top=None):
    ids = graph if top is None else topo(graph, top)
    return [i for i in ids if graph[i]["leaf"]]


def compounds(graph, top=None):
    ids = graph if top is None else topo(graph, top)
    return [i for i in ids if not graph[i]["leaf"]]


def solver_safe(graph, top):
    """no sub-proposition sits under a negatively signed parent"""
    for nid in topo(graph, top):
        n = graph[nid]
        if not n["leaf"] and n["sign"] < 0 and any(not graph[c]["leaf"] for c in n["ch"]):
            return False
    return True


def depth(graph, top):
    d = {}
    for nid in topo(graph, top):
        n = graph[nid]
        d[nid] = 0 if n["leaf"] else 1 + max([d[c] for c in n["ch"]] or [0])
    return d[top]


def shape_digest(graph, top):
    """canonical digest of the structure, ids abstracted away (children enter by their digests, so deep models stay cheap)"""
    memo = {}
    for nid in topo(graph, top):
        n = graph[nid]
        if n["leaf"]:
            t = ("L",) + tuple(n["b"])
        else:
            t = ("C", n["sign"], n["value"], tuple(n["b"]), tuple(sorted(memo[c] for c in n["ch"])))
        memo[nid] = hashlib.sha256(repr(t).encode()).hexdigest()[:16]
    return memo[top]


# ----------------------------------------------------------------------------- assignments
def box_size(bounds_list, cap=10**9):
    t = 1
    for lo, hi in bounds_list:
        t *= (int(hi) - int(lo) + 1)        # python ints: the bounds may be narrow numpy integers
        if t > cap:
            return cap + 1
    return t


def assignments(ids, bounds, rng, cap):
    """all points of the box when it has <= cap points (exhaustive=True), else corners that fit,
    boundary-biased and random interior points. yields (dict, exhaustive_flag)"""
    ranges = [range(lo, hi + 1) for lo, hi in bounds]
    if box_size(bounds, cap) <= cap:
        for t in itertools.product(*ranges):
            yield dict(zip(ids, t)), True
        return
    n = len(ids)
    seen = set()
    budget = cap
    # corners
    ncorner = min(2 ** n, cap // 2)
    if 2 ** n <= ncorner:
        corner_iter = itertools.product(*[(lo, hi) for lo, hi in bounds])
    else:
        corner_iter = (tuple(rng.choice(b) for b in bounds) for _ in range(ncorner))
    for t in corner_iter:
        if t not in seen:
            seen.add(t)
            budget -= 1
            yield dict(zip(ids, t)), False
    tries = 0
    while budget > 0 and tries < cap * 4:
        tries += 1
        t = []
        for lo, hi in bounds:
            r = rng.random()
            if hi - lo <= 8 or r < 0.4:
                t.append(rng.randint(lo, hi))
            elif r < 0.6:
                t.append(rng.choice([lo, lo + 1, hi - 1, hi]))
            elif r < 0.8:
                t.append(max(lo, min(hi, rng.randint(-3, 3))))
            else:
                t.append(rng.randint(lo, hi))
        t = tuple(t)
        if t in seen:
            continue
        seen.add(t)
        budget -= 1
        yield dict(zip(ids, t)), False


# ----------------------------------------------------------------------------- recipe semantics
def recipe_value(r, x, env=None):
    """arithmetic / boolean semantics of a recipe (AST), independent of any built object.
    leaves: x[id]. Every connective returns 0/1."""
    env = {} if env is None else env
    k = r["k"]
    if k in ("var", "str"):
        return x[r["id"]]
    if k == "ref":
        return env[r["to"]]
    if k in ("Not", "neg"):
        v = 1 - _as_bool_arg(r["args"][0], x, env)
    else:
        if k == "Imply":
            c = _as_bool_arg(r["args"][0], x, env)
            q = recipe_value(r["args"][1], x, env)
            v = 1 if (1 - c) + q >= 1 else 0
        else:
            vals = [recipe_value(a, x, env) for a in r["args"]]
            s = sum(vals)
            if k == "All":
                v = int(s >= len(vals))
            elif k in ("Any", "ccAny"):
                v = int(s >= 1)
            elif k == "AtLeast":
                sign = r.get("sign")
                if sign is None:
                    sign = 1 if r["value"] > 0 else -1
                v = int(sign * s >= r["value"])
            elif k == "AtMost":
                v = int(s <= r["value"])
            elif k in ("Xor", "ExactlyOne", "ccXor"):
                v = int(s >= 1 and s <= 1)
            elif k == "XNor":
                v = int(not (s >= 1 and s <= 1))
            elif k == "Stingy":
                v = int(s >= len(vals))
            else:
                raise KeyError(k)
    if r.get("label") is not None:
        env[r["label"]] = v
    return v


def _as_bool_arg(r, x, env):
    # Not / Imply wrap a bare variable in All(v): "v >= 1"
    if r["k"] in ("var", "str"):
        return int(x[r["id"]] >= 1)
    return recipe_value(r, x, env)


def recipe_leaves(r, acc=None):
    acc = {} if acc is None else acc
    if r["k"] == "var":
        acc.setdefault(r["id"], tuple(r["b"]))
    elif r["k"] == "str":
        acc.setdefault(r["id"], (0, 1))
    elif r["k"] != "ref":
        for a in r["args"]:
            recipe_leaves(a, acc)
    return acc


def recipe_nodes(r, acc=None):
    acc = [] if acc is None else acc
    acc.append(r)
    for a in r.get("args", ()):
        recipe_nodes(a, acc)
    return acc


def recipe_digest(r):
    def d(n):
        if n["k"] in ("var", "str"):
            return ("L",) + tuple(n.get("b", (0, 1)))
        if n["k"] == "ref":
            return ("R",)
        ch = [d(a) for a in n["args"]]
        if n["k"] not in ("Imply",):
            ch = sorted(ch, key=repr)
        return (n["k"], n.get("value"), n.get("sign"), bool(n.get("id")), bool(n.get("default")), tuple(ch))
    return hashlib.sha256(repr(d(r)).encode()).hexdigest()[:16]


# ----------------------------------------------------------------------------- polyhedra
def solutions(A, b, bounds, limit=2_000_000):
    """all integer points p of the box with A p >= b. A: (m,n) int64-safe arrays; returns (points, feasible_mask)
    or None when the box is larger than `limit`."""
    n = A.shape[1]
    if box_size(bounds, limit) > limit:
        return None
    axes = [np.arange(lo, hi + 1, dtype=np.int64) for lo, hi in bounds]
    if n == 0:
        pts = np.zeros((1, 0), dtype=np.int64)
    else:
        grid = np.meshgrid(*axes, indexing="ij")
        pts = np.stack([g.reshape(-1) for g in grid], axis=1)
    feas = np.ones(len(pts), dtype=bool)
    for i in range(A.shape[0]):
        feas &= (pts @ A[i].astype(np.int64)) >= int(b[i])
    return pts, feas


def row_minmax(A, b, bounds):
    """exact (min,max) over the box of A[i] p - b[i], Python ints"""
    out = []
    for i in range(A.shape[0]):
        lo = hi = -int(b[i])
        for j in range(A.shape[1]):
            a = int(A[i, j])
            l, u = bounds[j]
            lo += min(a * l, a * u)
            hi += max(a * l, a * u)
        out.append((lo, hi))
    return out


# ----------------------------------------------------------------------------- canonical naming
def canon_names(graph, top, generated):
    """explicit ids keep their id, generated ids get a content hash of (sign, value, child names)"""
    names = {}
    for nid in topo(graph, top):
        n = graph[nid]
        if n["leaf"]:
            names[nid] = "L:" + str(nid)
        elif nid in generated:
            ch = sorted(names[c] for c in n["ch"])
            names[nid] = "G:" + hashlib.sha256(repr((n["sign"], n["value"], ch)).encode()).hexdigest()[:16]
        else:
            names[nid] = "E:" + str(nid)
    return names
