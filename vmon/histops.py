"""Operations of the C09 call histories: one implementation used both by the live shard and by the pristine fork.

object recipe:  {"base": recipe, "rebinds": [...]}  |  {"derive": {"of": object recipe, "op": name, "args": [...]}, "rebinds": [...]}
rebind:         [path (list of child indexes from the root), [lo, hi]]   -- a *model* of the known defect (assume() rebinding
                the variable of a node named in the dictionary), applied by plain assignment, never through assume()
"""
import json

import numpy
import puan
import puan.logic.plog as pg
import puan.modules.configurator as cc

from . import adapters, digest, recipes

PLOG_OPS = ["evaluate", "evaluate_propositions", "assume", "reduce", "negate", "errors", "flatten", "variables", "is_tautology",
            "is_contradiction", "equation_bounds", "to_json", "to_text", "to_short", "to_b64", "to_ge_polyhedron", "solve", "b64_roundtrip"]
CFG_OPS = ["ge_polyhedron", "default_prios", "leafs", "select", "select_failing_solver", "select_scribbling_solver", "add", "json_roundtrip"]
# "select_builtin_solver" (no solver callable: puan_rspy's own beta solver) is implemented below but NOT drawn: the native solver does not
# return on some generated models (shards were killed by the watchdog when it was tried), and a native loop cannot be timed out from Python
DERIVING = {"assume", "reduce", "negate", "add", "json_roundtrip", "b64_roundtrip"}
LAST = {}


def conv_interp(d):
    """JSON-able interpretation -> the value forms the API accepts"""
    out = {}
    for k, v in d.items():
        if isinstance(v, dict) and "B" in v:
            out[k] = puan.Bounds(int(v["B"][0]), int(v["B"][1]))
        elif isinstance(v, dict) and "np" in v:
            out[k] = numpy.int64(v["np"])
        elif isinstance(v, list):
            out[k] = (int(v[0]), int(v[1]))
        else:
            out[k] = int(v)
    return out


def norm_interp_value(v):
    if isinstance(v, dict) and "B" in v:
        return (int(v["B"][0]), int(v["B"][1]))
    if isinstance(v, dict) and "np" in v:
        return (int(v["np"]), int(v["np"]))
    if isinstance(v, list):
        return (int(v[0]), int(v[1]))
    return (int(v), int(v))


def node_at(obj, path):
    n = obj
    for i in path:
        n = n.propositions[i]
    return n


def apply_rebinds(obj, rebinds):
    for path, b in rebinds:
        n = node_at(obj, path)
        n.variable = puan.variable(id=n.id, bounds=(int(b[0]), int(b[1])))     # modelled defect
    return obj


def materialise(orec):
    if "base" in orec:
        obj = recipes.build(orec["base"], {})
    else:
        d = orec["derive"]
        parent = materialise(d["of"])
        res, derived = apply_op(parent, d["op"], d["args"])
        obj = derived
    return apply_rebinds(obj, orec.get("rebinds", []))


def exact_solver():
    from .workloads import confgen
    return confgen.exact_solver_factory({})


def apply_op(obj, op, args):
    """-> (raw result, derived object or None)"""
    if op == "evaluate":
        return obj.evaluate(conv_interp(args[0])), None
    if op == "evaluate_propositions":
        return obj.evaluate_propositions(conv_interp(args[0])), None
    if op == "assume":
        r = obj.assume(conv_interp(args[0]))
        return r, r
    if op == "reduce":
        r = obj.reduce()
        return r, r
    if op == "negate":
        r = obj.negate()
        return r, r
    if op == "errors":
        return [str(e) for e in obj.errors()], None
    if op == "flatten":
        return [digest.state(x) for x in obj.flatten()], None
    if op == "variables":
        return list(obj.variables), None
    if op in ("is_tautology", "is_contradiction", "equation_bounds", "default_prios"):
        return getattr(obj, op), None
    if op == "to_json":
        try:
            return json.dumps(obj.to_json(), sort_keys=True), None
        except TypeError:
            return "TypeError(json.dumps)", None
    if op in ("to_text", "to_short"):
        return getattr(obj, op)(), None
    if op == "to_b64":
        # the string itself depends on which equal str/int objects happen to be shared inside the process (pickle memo);
        # what it *contains* is compared instead
        return ("b64-content", digest.deep(pg.from_b64(obj.to_b64()))), None
    if op == "to_ge_polyhedron":
        if len(args) > 1 and args[1]:
            return obj.to_ge_polyhedron(bool(args[0]), reduced=True), None
        return obj.to_ge_polyhedron(bool(args[0])), None
    if op == "solve":
        return [(dict(s), int(ov) if ov is not None else None, sc) for s, ov, sc in obj.solve([dict(o) for o in args[0]], solver=exact_solver())], None
    if op == "b64_roundtrip":
        r = pg.from_b64(obj.to_b64())
        return r, r
    if op == "ge_polyhedron":
        return obj.ge_polyhedron, None
    if op == "leafs":
        return obj.leafs(), None
    if op == "select":
        out = list(obj.select(*[dict(p) for p in args[0]], solver=exact_solver(), only_leafs=bool(args[1])))
        return [dict(r) if isinstance(r, dict) else (dict(r[0]), r[1], r[2]) for r in out], None
    if op == "select_builtin_solver":
        # the library's own solver (no callable handed over): several requests per call, results pair with requests by position
        out = list(obj.select(*[dict(p) for p in args[0]], only_leafs=bool(args[1])))
        return [dict(r) if isinstance(r, dict) else (dict(r[0]), r[1], r[2]) for r in out], None
    if op == "select_scribbling_solver":
        # a solver that uses the objective vectors it was handed as work space (a minimiser flipping the weights in place): what it was
        # handed is its own; the configurator must answer later requests as if nothing had happened
        inner = exact_solver()

        def scribbling(polyhedron, objectives):
            objs = list(objectives)
            out = inner(polyhedron, [numpy.array(o, copy=True) for o in objs])
            for o in objs:
                try:
                    numpy.negative(o, out=o)
                except Exception:      # noqa
                    pass
            return out
        out = list(obj.select(*[dict(p) for p in args[0]], solver=scribbling, only_leafs=bool(args[1])))
        return [dict(r) if isinstance(r, dict) else (dict(r[0]), r[1], r[2]) for r in out], None
    if op == "select_failing_solver":
        def failing(polyhedron, objectives):
            if args[0] == "raise":
                raise RuntimeError("no licence for the solver available right now")
            return [(None, 0, 4) for _ in objectives]
        return list(obj.select({}, solver=failing)), None
    if op == "add":
        rule = recipes.build(args[0], {})
        before = object_state(rule) if not adapters.is_leaf(rule) else None
        LAST.clear()
        try:
            r = obj.add(rule)
        finally:
            if before is not None:
                LAST["argument"] = (before, object_state(rule))       # the rule that was handed over is another object: it must not change either
        return r, r
    if op == "json_roundtrip":
        data = json.loads(json.dumps(obj.to_json()))
        r = cc.StingyConfigurator.from_json(data) if isinstance(obj, cc.StingyConfigurator) else pg.from_json(data)
        return r, r
    raise KeyError(op)


def run_op(obj, op, args):
    """-> (result digest, derived object or None, exception type name or None)"""
    try:
        res, derived = apply_op(obj, op, args)
        return digest.h(digest.result(res)), derived, None, digest.result(res)
    except (KeyboardInterrupt, SystemExit):
        raise
    except BaseException as e:          # pyo3 panics derive from BaseException
        return "exception:" + type(e).__name__, None, type(e).__name__, ("exception", type(e).__name__, str(e)[:200])


def object_state(obj):
    """what a later query could observe: public structure (+ class extras) and the packed form"""
    st = digest.state(obj)
    try:
        packed = digest.h(digest.deep(obj))      # everything a pickle (to_b64) of the object would contain
    except BaseException as e:    # noqa
        packed = "exception:" + type(e).__name__
    return st, packed


def pristine_answer(req):
    obj = materialise(req["object"])
    d, derived, exc, full = run_op(obj, req["op"], req["args"])
    return {"digest": d, "exception": exc, "result": full if req.get("want_result") else None}
