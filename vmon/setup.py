"""MANIFEST.setup_cmd: offline build step (installs icontract/deal into .deps from the local wheelhouse)"""
import sys
from . import env
if __name__ == "__main__":
    eng = env.ensure_deps(quiet=False)
    env.bootstrap()
    print("vmon setup: engine =", eng)
    sys.exit(0)
