"""Orchestration of one check: shards -> merged observations -> verdict -> evidence -> exit code.

exit 0  property held on everything observed (KNOWN-FINDING lines for listed findings)
exit 1  at least one violation that known_findings.json does not list as open (VIOLATION lines)
exit 2  inconclusive (a deciding monitor was never evaluated, a shard died, adapter mismatch);
        never on the unchanged tree -- budgets are sized so that every mandatory counter is hit
"""
import argparse
import collections
import importlib
import json
import os
import shutil
import subprocess
import sys
import time

from . import env

HASHSEEDS = ["0", "1", "2", "3"]


def load_known():
    p = os.path.join(env.VERIF, "known_findings.json")
    try:
        return json.load(open(p))
    except FileNotFoundError:
        return {"findings": []}


def run_shards(prop, tier, seed, nshards, cases, tlimit, workdir, extra_env=None):
    procs = []
    maxpar = int(os.environ.get("VERIF_JOBS", "16"))
    pending = list(range(nshards))
    results = []
    running = []
    while pending or running:
        while pending and len(running) < maxpar:
            k = pending.pop(0)
            out = os.path.join(workdir, f"shard{k}.json")
            e = dict(os.environ)
            e["PYTHONHASHSEED"] = HASHSEEDS[k % len(HASHSEEDS)]
            e["PYTHONPATH"] = env.VERIF + os.pathsep + e.get("PYTHONPATH", "")
            e["PYTHONDONTWRITEBYTECODE"] = "1"
            if extra_env:
                e.update(extra_env)
            cmd = [env.PY, "-m", "vmon.shard", "--prop", prop, "--tier", tier, "--seed", str(seed * 1000 + k),
                   "--cases", str(cases), "--time", str(tlimit), "--out", out]
            log = open(os.path.join(workdir, f"shard{k}.log"), "w")
            p = subprocess.Popen(cmd, cwd=env.VERIF, env=e, stdout=log, stderr=subprocess.STDOUT)
            running.append((k, p, out, time.time(), log))
        time.sleep(0.05)
        still = []
        for k, p, out, t0, log in running:
            rc = p.poll()
            if rc is None:
                if time.time() - t0 > tlimit * 3 + 120:     # generous watchdog; firing is inconclusive
                    p.kill()
                    p.wait()
                    log.close()
                    results.append((k, None, "watchdog"))
                else:
                    still.append((k, p, out, t0, log))
                continue
            log.close()
            if rc == 0 and os.path.exists(out):
                try:
                    results.append((k, json.load(open(out)), None))
                except Exception as ex:
                    results.append((k, None, f"unreadable report: {ex}"))
            else:
                tail = open(os.path.join(workdir, f"shard{k}.log")).read()[-1500:]
                results.append((k, None, f"exit {rc}: {tail}"))
        running = still
    return results


def start_suite(prop, seed, workdir):
    """the repository's own tests with the monitors of `prop` attached (second workload source, thorough tier)"""
    out = os.path.join(workdir, "suite.json")
    e = dict(os.environ, VMON_PROP=prop, VMON_OUT=out, PYTHONPATH=env.VERIF + os.pathsep + os.path.join(env.VERIF, ".deps"),
             PYTHONHASHSEED="0", PYTHONDONTWRITEBYTECODE="1", HYPOTHESIS_STORAGE_DIRECTORY=os.path.join(workdir, "hyp"))
    # hypothesis draws are made reproducible: the same VERIF_SEED observes the same examples
    cmd = [env.PY, "-m", "pytest", "-q", "-p", "no:cacheprovider", "-p", "vmon.pytest_plugin", "--timeout=900", "--hypothesis-seed=%d" % seed,
           "--continue-on-collection-errors", "-o", "addopts=", "--doctest-modules", "puan", "tests"]
    log = open(os.path.join(workdir, "suite.log"), "w")
    p = subprocess.Popen(cmd, cwd=env.REPO, env=e, stdout=log, stderr=subprocess.STDOUT)
    return p, out, log, time.time()


def finish_suite(suite):
    p, out, log, t0 = suite
    try:
        p.wait(timeout=1500)
    except subprocess.TimeoutExpired:
        p.kill()
        return None, "pytest sub-run exceeded its watchdog (inconclusive, ignored)"
    finally:
        log.close()
    if os.path.exists(out):
        try:
            r = json.load(open(out))
            r["seed"] = -1
            r["counters"]["pytest:sub-run"] = 1
            return r, "pytest sub-run merged (%d tests, %.0fs)" % (r["counters"].get("pytest:tests", 0), time.time() - t0)
        except Exception as ex:
            return None, f"pytest sub-run report unreadable: {ex}"
    return None, "pytest sub-run produced no report (pytest exit %s)" % p.returncode


def merge(reports):
    m = {"evaluations": 0, "counters": collections.Counter(), "nontrivial": set(), "samples": [],
         "violations": [], "violation_count": 0, "violation_kinds": collections.Counter(), "known": {},
         "inconclusive": [], "harness_errors": [], "harness_error_count": 0, "engines": set(), "seeds": [],
         "hashseeds": set(), "wall": 0.0, "time_limited": 0}
    for r in reports:
        m["evaluations"] += r["evaluations"]
        m["counters"].update(r["counters"])
        m["nontrivial"].update(r["nontrivial"])
        for s in r["samples"]:
            if len(m["samples"]) < 6:
                m["samples"].append(s)
        m["violations"].extend(r["violations"])
        m["violation_count"] += r["violation_count"]
        m["violation_kinds"].update(r["violation_kinds"])
        for k, v in r["known"].items():
            e = m["known"].setdefault(k, {"count": 0, "witness": v["witness"]})
            e["count"] += v["count"]
        for w in r["inconclusive"]:
            if w not in m["inconclusive"]:
                m["inconclusive"].append(w)
        m["harness_errors"].extend(r.get("harness_errors", [])[:2])
        m["harness_error_count"] += r.get("harness_error_count", 0)
        m["engines"].add(r.get("engine"))
        m["seeds"].append(r["seed"])
        m["hashseeds"].add(str(r["hashseed"]))
        m["wall"] = max(m["wall"], r.get("wall_s", 0))
        m["time_limited"] += 1 if r.get("time_limited") else 0
    return m


def main(argv=None):
    ap = argparse.ArgumentParser()
    ap.add_argument("prop")
    ap.add_argument("--tier", default=os.environ.get("VERIF_TIER", "quick"))
    ap.add_argument("--replay", default=None)
    ap.add_argument("--no-evidence", action="store_true")
    a = ap.parse_args(argv)
    prop = a.prop.upper()
    tier = a.tier if a.tier in ("quick", "thorough") else "quick"
    seed = int(os.environ.get("VERIF_SEED", "0") or 0)
    engine = env.ensure_deps()
    if a.replay:
        e = dict(os.environ, PYTHONPATH=env.VERIF)
        rep = json.load(open(a.replay))
        e["PYTHONHASHSEED"] = str(rep.get("hashseed", "0"))
        return subprocess.call([env.PY, "-m", "vmon.shard", "--prop", prop, "--replay", a.replay], cwd=env.VERIF, env=e)

    env.bootstrap()
    wl = importlib.import_module("vmon.workloads." + prop.lower())
    nshards, cases, tlimit = wl.BUDGET[tier]
    t0 = time.time()
    workdir = os.path.join(env.VERIF, ".work", f"{prop}-{tier}-{os.getpid()}")
    shutil.rmtree(workdir, ignore_errors=True)
    os.makedirs(workdir)
    try:
        suite = None
        if tier == "thorough" and getattr(wl, "PYTEST", False) and not os.environ.get("VERIF_NO_PYTEST"):
            suite = start_suite(prop, seed, workdir)
        results = run_shards(prop, tier, seed, nshards, cases, tlimit, workdir)
        reports = [r for _, r, _ in results if r is not None]
        suite_note = None
        if suite is not None:
            srep, suite_note = finish_suite(suite)
            if srep is not None:
                reports.append(srep)
        dead = [(k, why) for k, r, why in results if r is None]
        m = merge(reports)
        extra = {}
        if hasattr(wl, "post_merge"):
            extra = wl.post_merge(m, tier, seed, workdir) or {}
    finally:
        shutil.rmtree(workdir, ignore_errors=True)

    # ---- known findings -----------------------------------------------------------------------
    kf = load_known()
    open_keys = {f["key"]: f for f in kf.get("findings", []) if f.get("property") == prop and f.get("status") == "open"}
    violations = list(m["violations"])
    vcount = m["violation_count"]
    known_lines = []
    for key, v in sorted(m["known"].items()):
        if key in open_keys:
            known_lines.append((key, v["count"], open_keys[key].get("short") or open_keys[key].get("what", key)))
        else:
            # the classifier recognises a mechanism that is not (or no longer) an open finding: a violation
            w = dict(v["witness"])
            w["classified_as"] = key
            violations.append(w)
            vcount += v["count"]

    # ---- inconclusive? ------------------------------------------------------------------------
    inconclusive = list(m["inconclusive"])
    for k, why in dead:
        inconclusive.append(f"shard {k} died: {why[:300]}")
    if m["harness_error_count"]:
        inconclusive.append(f"{m['harness_error_count']} harness errors, first: {m['harness_errors'][:1]}")
    monerr = {k: v for k, v in m["counters"].items() if k.startswith("monitor-error")}
    if monerr:
        inconclusive.append(f"monitor errors: {dict(list(monerr.items())[:6])}")
    for name in getattr(wl, "MANDATORY", []):
        if m["counters"].get(name, 0) <= 0:
            inconclusive.append(f"deciding monitor never evaluated: {name}")
    if m["evaluations"] <= 0:
        inconclusive.append("no judged observation at all")

    # ---- evidence -----------------------------------------------------------------------------
    wall = time.time() - t0
    observed = {
        "counters": {k: v for k, v in sorted(m["counters"].items()) if not k.startswith("monitor-error-msg")},
        "shards": nshards, "shard_reports": len(reports), "seeds": m["seeds"], "hashseeds": sorted(m["hashseeds"]),
        "engine": sorted(x for x in m["engines"] if x), "known_findings_seen": {k: v["count"] for k, v in m["known"].items()},
        "violation_kinds": dict(m["violation_kinds"]), "inconclusive": inconclusive,
        "shards_stopped_by_time_limit": m["time_limited"],
        "repository_test_suite_under_monitors": suite_note,
    }
    observed.update(extra.get("observed", {}))
    samples = m["samples"] or [{"note": "no sample recorded"}]
    ev = {
        "property_id": prop, "tier": tier, "seed": seed, "level": "exploration",
        "coverage": {
            "evaluations": int(m["evaluations"]), "distinct_nontrivial": len(m["nontrivial"]),
            "rule": wl.RULE, "samples": samples, "exhaustive": False, "observed": observed,
        },
        "assumptions": getattr(wl, "ASSUMPTIONS", []) + [
            "puan_rspy (pre-built wheel) is a black box observed only at its Python boundary",
            "held on the executions observed; nothing is claimed about inputs that were not generated",
        ],
        "wall_s": round(wall, 2), "violations": int(vcount),
        "verdict": "violated" if vcount else ("inconclusive" if inconclusive else "held-on-observed"),
    }
    if not a.no_evidence:
        os.makedirs(os.path.join(env.VERIF, "evidence"), exist_ok=True)
        with open(os.path.join(env.VERIF, "evidence", f"{prop}.json"), "w") as f:
            json.dump(ev, f, indent=1, sort_keys=True, default=repr)

    # ---- report -------------------------------------------------------------------------------
    print(f"[{prop}/{tier}] seed={seed} shards={len(reports)}/{nshards} cases={m['counters'].get('cases', 0)} "
          f"judged={m['evaluations']} distinct_nontrivial={len(m['nontrivial'])} wall={wall:.1f}s engine={observed['engine']}")
    top = sorted(((k, v) for k, v in m["counters"].items() if k.startswith(("judged:", "contract:", "reach:") + (("count:", "redefine:") if os.environ.get("VERIF_SHOW_COUNTS") else ()))), key=lambda kv: kv[0])
    for k, v in top[:80]:
        print(f"    {k} = {v}")
    for key, n, what in known_lines:
        print(f"KNOWN-FINDING: property={prop} {key}: {what} (observed {n}x in this run)")
    if vcount:
        os.makedirs(os.path.join(env.VERIF, "replays"), exist_ok=True)
        seen_kinds = set()
        n = 0
        for v in violations:
            kind = (v.get("sub"), v.get("classified_as"))
            if kind in seen_kinds or n >= 5:
                continue
            seen_kinds.add(kind)
            path = os.path.join(env.VERIF, "replays", f"{prop}-{n}.json")
            with open(path, "w") as f:
                json.dump(v, f, indent=1, default=repr)
            print(f"VIOLATION property={prop} replay={path}")
            print(f"    sub={v.get('sub')} classified_as={v.get('classified_as')} detail={json.dumps(v.get('detail'), default=repr)[:600]}")
            n += 1
        print(f"[{prop}] {vcount} violating observations, kinds: {dict(m['violation_kinds'])}")
        return 1
    if inconclusive:
        print(f"[{prop}] INCONCLUSIVE: " + "; ".join(inconclusive)[:2000])
        return 2
    print(f"[{prop}] held on everything observed")
    return 0


if __name__ == "__main__":
    sys.exit(main())
