"""Reach counters: proof that a workload drove the mechanism a property is anchored in.

Anchors are resolved from *source text* inside a function (never by line number), and watched with
sys.monitoring LINE events that are local to that function's code object; every other line returns
DISABLE, so the cost is not measurable. An anchor that cannot be resolved is reported as
`unresolved` and never changes a verdict; a resolved anchor that is never hit makes the sub-claim
depending on it inconclusive.
"""
import inspect
import sys

TOOL = 3
_anchors = {}      # (code, line) -> name
_status = {}       # name -> 'resolved' | 'unresolved'
_installed = False


def _callback(code, line):
    name = _anchors.get((code, line))
    if name is None:
        return sys.monitoring.DISABLE
    from . import monitor
    if monitor.CTX is not None:
        monitor.CTX.counters["reach:" + name] += 1
    return None


def watch(name, func, needle, occurrence=0):
    """count executions of the first source line of `func` containing `needle`"""
    global _installed
    try:
        func = inspect.unwrap(func)
        code = func.__code__
        src, start = inspect.getsourcelines(func)
        hits = [start + i for i, l in enumerate(src) if needle in l]
        if not hits or not hasattr(sys, "monitoring"):
            _status[name] = "unresolved"
            return False
        line = hits[occurrence]
        if not _installed:
            try:
                sys.monitoring.use_tool_id(TOOL, "vmon-reach")
            except ValueError:
                pass
            sys.monitoring.register_callback(TOOL, sys.monitoring.events.LINE, _callback)
            _installed = True
        _anchors[(code, line)] = name
        sys.monitoring.set_local_events(TOOL, code, sys.monitoring.events.LINE)
        _status[name] = "resolved"
        return True
    except Exception:
        _status[name] = "unresolved"
        return False


def status():
    return dict(_status)
