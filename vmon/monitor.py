"""Contract engine and observation sink.

`attach(owner, name, post, snap)` decorates the *real* function object found in
`owner.__dict__[name]` (function, staticmethod, classmethod or property getter) with an
icontract `snapshot` + `ensure` pair (plain wrapper when icontract is unavailable) and
puts it back, so every call made by anybody afterwards -- a workload, the repository's own
tests, the library calling itself -- is an observed execution.

Conditions *record and return True* unless the context is strict (replay / self-check):
one defect must not mask the rest, and the monitored program keeps running.

A monitor that itself calls monitored library functions (the oracles sometimes evaluate
the model) sets a re-entrancy guard, so that inner calls are not judged and not counted.
"""
import collections
import functools
import hashlib
import json
import os
import traceback

ENGINE = None            # 'icontract' | 'plain-wrapper'
_ATTACHED = []           # (owner, name, original attribute)
_busy = 0                # re-entrancy guard (library is single threaded)


class ContractBroken(AssertionError):
    pass


class CaseAbort(Exception):
    """raised by ctx.call when the function under observation raised: the case is over."""


class OutOfScope(Exception):
    """a generated case turned out to be outside the property's domain (counted, not judged)"""


def jsonable(o, depth=0):
    import numpy
    if depth > 80:
        return repr(o)[:200]
    if isinstance(o, (str, int, float, bool)) or o is None:
        if isinstance(o, float) and o != o:
            return "nan"
        return o
    if isinstance(o, (numpy.integer,)):
        return int(o)
    if isinstance(o, (numpy.floating,)):
        f = float(o)
        return "nan" if f != f else f
    if isinstance(o, numpy.ndarray):
        return jsonable(numpy.asarray(o).tolist(), depth + 1)
    if isinstance(o, dict):
        return {str(k): jsonable(v, depth + 1) for k, v in o.items()}
    if isinstance(o, (list, tuple, set, frozenset)):
        return [jsonable(v, depth + 1) for v in o]
    if hasattr(o, "as_tuple"):
        try:
            return list(o.as_tuple())
        except Exception:
            pass
    return repr(o)[:300]


def digest(o):
    return hashlib.sha256(json.dumps(jsonable(o), sort_keys=True, default=repr).encode()).hexdigest()[:16]


class Ctx:
    """observation sink of one shard"""

    MAX_KEEP = 40

    def __init__(self, prop, tier="quick", seed=0, hashseed="0", strict=False):
        self.prop, self.tier, self.seed, self.hashseed, self.strict = prop, tier, seed, hashseed, strict
        self.counters = collections.Counter()
        self.evaluations = 0
        self.nontrivial = set()
        self.samples = []
        self.violations = []          # kept witnesses
        self.violation_count = 0
        self.violation_kinds = collections.Counter()
        self.known = {}               # key -> {"count": n, "witness": first}
        self.case = None
        self.case_index = -1
        self.inconclusive = []
        self.classifier = None        # callable(sub, detail, case) -> known key or None

    # -- counting ---------------------------------------------------------------
    def count(self, name, n=1):
        self.counters[name] += n

    def judged(self, sub, n=1):
        self.evaluations += n
        self.counters["judged:" + sub] += n

    def nt(self, d):
        self.nontrivial.add(d if isinstance(d, str) else digest(d))

    def sample(self, obj, cap=4):
        if len(self.samples) < cap:
            self.samples.append(jsonable(obj))

    def note_inconclusive(self, why):
        if why not in self.inconclusive:
            self.inconclusive.append(why)

    # -- verdicts ---------------------------------------------------------------
    def violation(self, sub, detail, facts=None):
        """record a refuting observation. `facts` are mechanism facts for the classifier."""
        detail = jsonable(detail)
        key = None
        if self.classifier is not None:
            try:
                key = self.classifier(sub, detail, facts or {}, self.case)
            except Exception:
                key = None
        entry = {"property": self.prop, "sub": sub, "detail": detail, "facts": jsonable(facts or {}),
                 "case": jsonable(self.case), "case_index": self.case_index,
                 "seed": self.seed, "hashseed": self.hashseed}
        if key is not None:
            k = self.known.setdefault(key, {"count": 0, "witness": entry})
            k["count"] += 1
            return False
        self.violation_count += 1
        kind = sub
        self.violation_kinds[kind] += 1
        if self.violation_kinds[kind] <= 3 and len(self.violations) < self.MAX_KEEP:
            self.violations.append(entry)
        if self.strict:
            raise ContractBroken(f"{self.prop}/{sub}: {json.dumps(detail, default=repr)[:2000]}")
        return False

    def check(self, cond, sub, detail_fn, facts=None):
        """judge one observation; detail_fn is only evaluated on failure"""
        self.judged(sub)
        if not cond:
            self.violation(sub, detail_fn() if callable(detail_fn) else detail_fn, facts)
        return bool(cond)

    # -- calling the code under observation -------------------------------------
    def call(self, label, fn, *a, **kw):
        """in-domain call: an exception (incl. native panics, BaseException) is a violation"""
        self.counters["call:" + label] += 1
        if not _busy:
            DEPTH.clear()
        try:
            return fn(*a, **kw)
        except (KeyboardInterrupt, SystemExit, ContractBroken):
            raise
        except BaseException as e:  # pyo3 PanicException derives from BaseException
            tb = traceback.format_exc(limit=6)
            self.judged("no-exception:" + label)
            self.violation("exception:" + label, {"type": type(e).__name__, "msg": str(e)[:300], "tb": tb[-1200:]},
                           {"exception": type(e).__name__})
            raise CaseAbort(label)

    def report(self):
        return {
            "property": self.prop, "tier": self.tier, "seed": self.seed, "hashseed": self.hashseed,
            "evaluations": self.evaluations, "counters": dict(self.counters),
            "nontrivial": sorted(self.nontrivial), "samples": self.samples,
            "violations": self.violations, "violation_count": self.violation_count,
            "violation_kinds": dict(self.violation_kinds),
            "known": self.known, "inconclusive": self.inconclusive, "engine": ENGINE,
        }


CTX = None   # set by the shard
DEPTH = collections.Counter()   # label -> current nesting depth of monitored calls (reset by Ctx.call)


def set_ctx(ctx):
    global CTX
    CTX = ctx


class guard:
    """with guard(): ... -> monitored functions called inside are not judged"""
    def __enter__(self):
        global _busy
        _busy += 1

    def __exit__(self, *a):
        global _busy
        _busy -= 1


def busy():
    return _busy > 0


def _engine():
    global ENGINE
    if ENGINE is None:
        try:
            import icontract  # noqa
            ENGINE = "icontract"
        except Exception:
            ENGINE = "plain-wrapper"
    return ENGINE



def _keep_monitor_error(label, e):
    """an error of the monitor itself makes the run inconclusive; the case that provoked it is kept (once per shard) so that it can be replayed"""
    if CTX is None or CTX.counters.get("monitor-error-kept"):
        return
    CTX.count("monitor-error-kept")
    try:
        d = os.path.join(os.path.dirname(os.path.dirname(os.path.abspath(__file__))), "replays")
        os.makedirs(d, exist_ok=True)
        with open(os.path.join(d, f"{CTX.prop}-monitor-error.json"), "w") as f:
            json.dump({"property": CTX.prop, "sub": "monitor-error:" + label, "case": jsonable(CTX.case), "case_index": CTX.case_index, "seed": CTX.seed,
                       "hashseed": CTX.hashseed, "detail": {"type": type(e).__name__, "msg": str(e)[:300], "tb": traceback.format_exc(limit=12)[-3000:]}}, f, indent=1, default=repr)
    except Exception:
        pass


def _decorate(fn, post, snap, label, top_only=False):
    """returns fn wrapped with snapshot+ensure. post(pre, args, kwargs, result) -> bool.
    top_only: calls nested inside another call of the same function (the library's own recursion) are
    counted but not judged."""
    def capture(_ARGS, _KWARGS):
        if _busy or CTX is None:
            return None
        DEPTH[label] += 1
        if snap is None or (top_only and DEPTH[label] > 1):
            return None
        with guard():
            try:
                return snap(_ARGS, _KWARGS)
            except ContractBroken:
                raise
            except Exception as e:   # a failing snapshot must never break the program
                CTX.count("monitor-error:snap:" + label)
                CTX.count("monitor-error-msg:" + type(e).__name__ + ":" + str(e)[:80])
                return None

    def holds(_ARGS, _KWARGS, result, OLD):
        if _busy or CTX is None:
            return True
        d = DEPTH[label]
        DEPTH[label] = max(0, d - 1)
        if top_only and d > 1:
            CTX.count("nested:" + label)
            return True
        CTX.count("contract:" + label)
        with guard():
            try:
                ok = post(OLD.pre, _ARGS, _KWARGS, result)
            except ContractBroken:
                raise
            except CaseAbort:
                return True        # a function under observation that the monitor itself called raised: already recorded as a violation
            except OutOfScope:
                CTX.count("out_of_scope:" + label)
                return True
            except Exception as e:
                CTX.count("monitor-error:post:" + label)
                CTX.count("monitor-error-msg:" + type(e).__name__ + ":" + str(e)[:80])
                _keep_monitor_error(label, e)
                if CTX.strict:
                    raise
                return True
        return True if not CTX.strict else (ok is not False)

    if _engine() == "icontract":
        import icontract
        return icontract.snapshot(capture, name="pre")(icontract.ensure(holds, error=ContractBroken)(fn))

    @functools.wraps(fn)
    def wrapper(*a, **kw):
        class _O:
            pre = capture(a, kw)
        r = fn(*a, **kw)
        if not holds(a, kw, r, _O):
            raise ContractBroken(label)
        return r
    return wrapper


def _all_subclasses(cls):
    out, todo = [], list(cls.__subclasses__())
    while todo:
        c = todo.pop()
        if c not in out:
            out.append(c)
            todo.extend(c.__subclasses__())
    return out


def attach(owner, name, post, snap=None, label=None, top_only=False, family=True):
    """decorate owner.__dict__[name] in place; returns True when attached.
    family: an override of `name` in any (loaded) subclass would bypass the contract, so it is decorated too
    (same label, so nesting through super() is recognised)."""
    label = label or f"{getattr(owner, '__name__', owner)}.{name}"
    if family and isinstance(owner, type):
        for sub in _all_subclasses(owner):
            if name in sub.__dict__ and not any(o is sub and n == name for o, n, _ in _ATTACHED):
                attach(sub, name, post, snap, label, top_only, family=False)
                if CTX is not None:
                    CTX.count("attached-override:" + sub.__name__ + "." + name)
    raw = owner.__dict__.get(name) if hasattr(owner, "__dict__") else None
    if raw is None:
        raw = getattr(owner, name, None)
        if raw is None:
            if CTX is not None:
                CTX.note_inconclusive("cannot attach " + label)
            return False
    _ATTACHED.append((owner, name, raw))
    if isinstance(raw, staticmethod):
        new = staticmethod(_decorate(raw.__func__, post, snap, label, top_only))
    elif isinstance(raw, classmethod):
        new = classmethod(_decorate(raw.__func__, post, snap, label, top_only))
    elif isinstance(raw, property):
        new = property(_decorate(raw.fget, post, snap, label, top_only), raw.fset, raw.fdel, raw.__doc__)
    else:
        new = _decorate(raw, post, snap, label, top_only)
    setattr(owner, name, new)
    return True


def rebind_alias(module, alias, owner, name):
    """module-level aliases bound before decoration bypass the contract: rebind them"""
    if hasattr(module, alias):
        setattr(module, alias, getattr(owner, name))


def detach_all():
    while _ATTACHED:
        owner, name, raw = _ATTACHED.pop()
        setattr(owner, name, raw)
