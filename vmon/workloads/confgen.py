"""generator of configurator recipes (boolean items) and an exact brute-force solver shared by C14, C15, C16, C17, C18, C09"""
import itertools

import numpy

ITEMS = list("abcdefgh")


def V(i):
    return {"k": "var", "id": i, "b": [0, 1]}


def gen_rule(rng, items, idgen, depth=1, p_id=0.4):
    if depth > 0 and rng.random() < 0.12:
        # a defaulted rule one level down, under a plain connective
        inner = gen_rule(rng, items, idgen, 0, p_id)
        if inner["k"] not in ("ccAny", "ccXor"):
            inner = {"k": rng.choice(["ccAny", "ccXor"]), "id": idgen() if rng.random() < p_id else None,
                     "args": [V(i) for i in rng.sample(items, min(3, len(items)))]}
            inner["default"] = [inner["args"][0]["id"]]
        outer = rng.choice(["AtLeast", "All", "Any", "AtMost"])
        extra = [V(i) for i in rng.sample(items, rng.randint(0, 1)) if i not in {a["id"] for a in inner["args"]}]
        node = {"k": outer, "id": idgen() if rng.random() < p_id else None, "args": [inner] + extra}
        if outer in ("AtLeast", "AtMost"):
            node["value"] = 1
        return node
    k = rng.choice(["Any", "ccAny", "Xor", "ccXor", "AtMost", "All", "Imply", "ccAny", "ccXor", "AtLeast"])
    n = rng.randint(2, min(3, len(items)))
    its = rng.sample(items, n)
    vid = idgen() if rng.random() < p_id else None
    if k in ("Any", "Xor", "All"):
        return {"k": k, "id": vid, "args": [V(i) for i in its]}
    if k in ("ccAny", "ccXor"):
        r = {"k": k, "id": vid, "args": [V(i) for i in its]}
        t = rng.random()
        if depth > 0 and rng.random() < 0.2:
            # alternatives that are small rules themselves (often exactly two alternatives, with or without a default among the plain ones)
            if rng.random() < 0.6:
                its = its[:2]
                r["args"] = r["args"][:2]
            for j in rng.sample(range(len(its)), rng.randint(1, len(its))):
                pair = rng.sample(items, 2)
                r["args"][j] = {"k": rng.choice(["All", "Any"]), "id": idgen() if rng.random() < 0.5 else None, "args": [V(x) for x in pair]}
            plain = [a["id"] for a in r["args"] if a["k"] == "var"]
            if plain and t < 0.5:
                r["default"] = [rng.choice(plain)]
            return r
        if t < 0.8:
            r["default"] = [rng.choice(its)]
            if k == "ccAny" and len(its) >= 3 and rng.random() < 0.25:
                r["default"] = rng.sample(its, 2)
        elif t < 0.9:
            others = [i for i in items if i not in its]
            if others:
                r["default"] = [rng.choice(others)]      # a default that is not among the alternatives: kept, but without effect
        if rng.random() < 0.2:
            r["via"] = "from_list"                       # the alternative constructor (takes the default too)
        if r.get("default") and rng.random() < 0.15:
            r["default_form"] = "var"
        return r
    if k == "AtMost":
        return {"k": "AtMost", "id": vid, "args": [V(i) for i in its], "value": rng.randint(1, 2)}
    if k == "AtLeast":
        return {"k": "AtLeast", "id": vid, "args": [V(i) for i in its], "value": rng.randint(1, n)}
    # Imply: (All|Any of items) -> rule
    cn = rng.randint(1, 2)
    cond = {"k": rng.choice(["All", "Any"]), "id": idgen() if rng.random() < 0.2 else None, "args": [V(i) for i in rng.sample(items, cn)]}
    cons = gen_rule(rng, items, idgen, depth - 1, p_id) if depth > 0 else {"k": "Any", "id": None, "args": [V(i) for i in its]}
    if cons["k"] == "Imply":
        cons = {"k": "Any", "id": None, "args": [V(i) for i in its]}
    return {"k": "Imply", "id": vid, "args": [cond, cons]}


def gen_config(rng, nitems=None, nrules=None, cid=None):
    if cid is None:
        cid = rng.random() < 0.6          # a configurator is usually built without an id of its own (the id is then a generated one)
    nitems = nitems or rng.randint(3, 6)
    items = ITEMS[:nitems]
    cnt = [0]

    def idgen():
        cnt[0] += 1
        return "R%d" % cnt[0]
    rules = []
    seen = set()
    for _ in range(nrules or rng.randint(1, 3)):
        r = gen_rule(rng, items, idgen)
        key = repr(r)
        if key in seen:
            continue
        seen.add(key)
        rules.append(r)
    rec = {"k": "Stingy", "id": ("main" if cid else None), "args": rules}
    if rng.random() < 0.25:
        rec["prequery"] = rng.choice(["flatten", "leafs", "default_prios", "ge_polyhedron", "variables", "to_text", "errors"])
    return rec


def enumerate_feasible(A, b, ncols, bounds=None, limit=1 << 17):
    """all integer points of the column box satisfying A p >= b (None when the box is too large)"""
    bounds = bounds or [(0, 1)] * ncols
    size = 1
    for l, u in bounds:
        size *= (u - l + 1)
        if size > limit:
            return None
    axes = [numpy.arange(l, u + 1, dtype=numpy.int64) for l, u in bounds]
    if ncols == 0:
        pts = numpy.zeros((1, 0), dtype=numpy.int64)
    else:
        grid = numpy.meshgrid(*axes, indexing="ij")
        pts = numpy.stack([g.reshape(-1) for g in grid], axis=1)
    feas = ((pts @ A.T.astype(numpy.int64)) >= b.astype(numpy.int64)).all(axis=1) if A.shape[0] else numpy.ones(len(pts), dtype=bool)
    return pts[feas]


def exact_solver_factory(record=None, faults=None):
    """an exact ILP 'solver' by enumeration. It reads the polyhedron it is handed (matrix + column bounds).
    record: dict that receives what crossed the boundary. faults: {objective index: 'none' | exception instance}"""
    faults = faults or {}

    def solver(polyhedron, objectives):
        M = numpy.asarray(polyhedron).astype(numpy.int64)
        A, b = M[:, 1:], M[:, 0]
        bounds = [(int(v.bounds.lower), int(v.bounds.upper)) for v in list(polyhedron.variables)[1:]]
        objs = [numpy.asarray(o) for o in objectives]
        if record is not None:
            record["polyhedron"] = polyhedron
            record["matrix"] = M.copy()
            record["column_ids"] = [v.id for v in polyhedron.variables]
            record["bounds"] = bounds
            record["objectives"] = [o.copy() for o in objs]
            record["objectives_type"] = type(objectives).__name__
        feas = enumerate_feasible(A, b, A.shape[1], bounds)
        if record is not None:
            record["feasible"] = feas
        out = []
        for k, w in enumerate(objs):
            f = faults.get(k)
            if isinstance(f, BaseException):
                raise f
            if f == "none" or feas is None or len(feas) == 0:
                out.append((None, 0, 4))
                continue
            vals = feas.astype(object) @ numpy.array([int(x) for x in w], dtype=object)
            best = max(vals)
            idx = [i for i, v in enumerate(vals) if v == best]
            out.append((feas[idx[0]].copy(), int(best), 6))
        if record is not None:
            record["returned"] = out
        return out
    return solver


def config_json(r):
    """the documented JSON form of a configurator recipe, written by the harness (not by to_json)"""
    k = r["k"]
    if k == "var":
        return {"id": r["id"]} if r["b"] == [0, 1] else {"id": r["id"], "bounds": {"lower": r["b"][0], "upper": r["b"][1]}}
    d = {}
    if r.get("id"):
        d["id"] = r["id"]
    if k == "Imply":
        d.update(type="Imply", condition=config_json(r["args"][0]), consequence=config_json(r["args"][1]))
        return d
    d["propositions"] = [config_json(a) for a in r["args"]]
    if k == "Stingy":
        d["type"] = "StingyConfigurator"
    elif k in ("ccAny", "ccXor"):
        d["type"] = "Any" if k == "ccAny" else "Xor"
        if r.get("default"):
            d["default"] = [{"id": i} for i in r["default"]]
    elif k in ("AtLeast", "AtMost"):
        d.update(type=k, value=r["value"])
    else:
        d["type"] = k
    return d
