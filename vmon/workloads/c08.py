"""C08 reduce() preserves meaning and removes every fixed variable.

Monitor: post-condition on the real AtLeast.reduce (every call, the library's recursion included -- each is a
reduce() of a validated sub-model). Oracle: reference truth of the receiver (graph snapshotted before the call)
with fixed variables at their constants, on every interpretation of the still-free leaves; and a structural
walk of the result: no variable / sub-proposition with constant bounds unless the whole result is one constant.
"""
import random

import puan
import puan.logic.plog as pg

from .. import adapters, monitor, recipes, refmodel
from . import common, c06

PROP = "C08"
RULE = ("cases: random recipes with variables fixed by leaf bounds (k,k), by pre-fixed sub-proposition variables, and by a "
        "prior assume() of constants on leaves and sub-proposition ids; then reduce(). non-trivial: >=1 variable fixed, >=1 free, "
        "and the result differs from the input (threshold or children changed); distinct by canonical shape digest"
        ' Also: the same model with two different leaves fixed at the mid-point of equal bounds, hostile twins.')
BUDGET = {"quick": (12, 360, 90), "thorough": (16, 900, 1200)}
PYTEST = True     # thorough tier also runs the repository's own tests under these monitors
MANDATORY = ["judged:same-meaning", "judged:no-constant-left", "contract:AtLeast.reduce", "count:result-is-constant",
             "count:result-is-compound", "count:after-assume", "count:swap-fixed-pairs", "count:twin-runs", "count:deep-models", "count:reduce-after-rebinding"]

_n = 0


def _rng(ctx):
    global _n
    _n += 1
    return random.Random(ctx.seed * 1000003 + _n)


def snap(args, kwargs):
    self = args[0]
    v = adapters.validated(self, need_no_prefixed=False)
    if v is None:
        return None
    return v


def reduce_post(pre, args, kwargs, result):
    ctx = monitor.CTX
    if pre is None:
        raise monitor.OutOfScope()
    graph, top, info = pre
    lids, lb = common.leaf_box(graph, top)
    fixed = {i: b[0] for i, b in zip(lids, lb) if b[0] == b[1]}
    free = [i for i in lids if i not in fixed]
    fb = [graph[i]["b"] for i in free]
    order = refmodel.topo(graph, top)
    rng = _rng(ctx)
    bad = None
    n = 0
    seen = set()
    for x, _ex in refmodel.assignments(free, fb, rng, common.point_cap(ctx.tier, 48, 400)):
        full = dict(fixed)
        full.update(x)
        want = refmodel.truth(graph, top, full, order=order)[top]
        got = common.const(result.evaluate(dict(x)))
        seen.add(want)
        n += 1
        if got != want:
            bad = {"free": x, "fixed": fixed, "expected": want, "got": got}
            break
    ctx.judged("same-meaning", max(n - 1, 0))
    ctx.check(bad is None, "same-meaning", lambda: {"model": c06.gtext(graph, top), "reduced": adapters.model_text(result), "bad": bad})
    # no constant left
    if adapters.is_leaf(result):
        ctx.count("count:result-is-constant" if common.const(result.bounds) is not None else "count:result-is-free-variable")
        ctx.check(result.id == top, "no-constant-left", lambda: {"model": c06.gtext(graph, top), "reduced": repr(result)})
    else:
        ctx.count("count:result-is-compound")
        g2, t2, i2 = adapters.graph_of(result)
        left = [nid for nid, nd in g2.items() if nd["b"][0] == nd["b"][1]]
        ctx.check(not left, "no-constant-left", lambda: {"model": c06.gtext(graph, top), "reduced": adapters.model_text(result), "constant_nodes": left})
        changed = c06.gtext(g2, t2) != c06.gtext(graph, top)
        any_fixed = bool(fixed) or bool(info["prefixed"])
        if any_fixed and free and changed:
            ctx.nt(refmodel.shape_digest(graph, top))
    ctx.sample({"model": c06.gtext(graph, top), "reduced": adapters.model_text(result), "free_points": n})
    return True


def install(ctx):
    monitor.attach(pg.AtLeast, "reduce", reduce_post, snap)


def deep_chain(rng, depth):
    """a model nested `depth` levels deep with something fixed at the bottom (nothing in the statement bounds the depth)"""
    bottom_fixed = rng.random() < 0.7
    node = {"k": rng.choice(["Any", "All"]), "id": None, "args": [{"k": "var", "id": "x", "b": [1, 1] if bottom_fixed else [0, 1]},
                                                                {"k": "var", "id": "y", "b": [0, 1]}]}
    for d in range(depth):
        k = rng.choice(["Any", "All", "AtLeast", "Imply"])
        leaf = {"k": "var", "id": "l%d" % d, "b": [0, 1]}
        if k == "Imply":
            node = {"k": "Imply", "id": None, "args": [leaf, node]}
        elif k == "AtLeast":
            node = {"k": "AtLeast", "id": None, "args": [node, leaf], "value": rng.choice([1, 2])}
        else:
            node = {"k": k, "id": None, "args": [node, leaf]}
    return node


def gen_case(rng, tier, ctx, i):
    if rng.random() < 0.03:
        return {"recipe": deep_chain(rng, rng.randint(34, 48)), "seed": rng.getrandbits(32), "after_assume": rng.random() < 0.5, "swap_fixed": False, "deep": True}
    o = common.varied_opts(rng, tier, p_const_leaf=0.3, p_int=0.45)
    if rng.random() < 0.06:
        # a configurator is a model too: rules next to items, some of them integer quantities that are already settled (1, 2, 3 pieces)
        from . import confgen
        rec = confgen.gen_config(rng)
        for name in rng.sample(["n", "m", "k"], rng.randint(1, 2)):
            c = rng.choice([0, 1, 2, 2, 3])
            rec["args"].append({"k": "var", "id": name, "b": [c, c]})
        ctx.count("count:configurator-models")
        return {"recipe": rec, "seed": rng.getrandbits(32), "after_assume": rng.random() < 0.3, "swap_fixed": False}
    rec = common.model_case(rng, tier, o)
    if rec is None:
        return None
    if rng.random() < 0.3:
        nodes = [n for n in refmodel.recipe_nodes(rec)[1:] if n.get("id") and n["k"] not in ("var", "str", "ref", "Not")]
        for n in rng.sample(nodes, min(len(nodes), rng.randint(1, 2))):
            n["fix"] = rng.choice([0, 1])
    swap = rng.random() < 0.2
    if swap:
        lv = [n for n in refmodel.recipe_nodes(rec) if n["k"] == "var"]
        ids = sorted({n["id"] for n in lv})
        if len(ids) >= 2:
            b = rng.choice([[0, 2], [1, 3], [-1, 1], [0, 4]])
            for i in rng.sample(ids, 2):
                for n in lv:
                    if n["id"] == i:
                        n["b"] = list(b)
    return common.with_twins(rng, {"recipe": rec, "seed": rng.getrandbits(32), "after_assume": rng.random() < 0.5, "swap_fixed": swap, "reduce_twice": rng.random() < 0.15})


def _run_one(case, ctx):
    rng = random.Random(case["seed"])
    m = recipes.fresh(case["recipe"])
    if adapters.is_leaf(m):
        raise monitor.OutOfScope()
    graph, top, info = common.domain(m, allow_prefixed=True, recipe=case["recipe"])
    if graph[top]["b"][0] == graph[top]["b"][1]:
        raise monitor.OutOfScope()
    if case.get("deep"):
        ctx.count("count:deep-models")
    if case.get("reduce_twice") and not case.get("deep"):
        # reduce, then an evaluation that names a sub-proposition (the known C09 rebinding changes the object), then reduce again:
        # the second reduce is judged against the object as it is then
        comp = [c for c in refmodel.compounds(graph, top) if c != top]
        if comp:
            ctx.call("reduce", m.reduce)
            c = rng.choice(comp)
            try:
                m.evaluate({c: rng.choice([0, 1])})
            except BaseException:      # noqa
                pass
            if adapters.validated(m, need_no_prefixed=False) is not None and common.const(m.bounds) is None:
                ctx.count("count:reduce-after-rebinding")
                ctx.call("reduce", m.reduce)
            return
    if case.get("swap_fixed"):
        # the same model with two different leaves fixed at the same constant (mid-point of equal bounds): the two assumed
        # models have the same ids, and their leaf bounds collide under the library's hashes ((lo,hi) vs (mid,mid))
        cands = [l for l in refmodel.leaves(graph, top) if (graph[l]["b"][1] - graph[l]["b"][0]) % 2 == 0 and graph[l]["b"][1] > graph[l]["b"][0]]
        groups = {}
        for l in cands:
            groups.setdefault(tuple(graph[l]["b"]), []).append(l)
        pair = next((g for g in groups.values() if len(g) >= 2), None)
        if pair:
            ctx.count("count:swap-fixed-pairs")
            for l in pair[:2]:
                lo, hi = graph[l]["b"]
                mm = recipes.fresh(case["recipe"])
                am = ctx.call("assume", mm.assume, {l: (lo + hi) // 2})
                if not adapters.is_leaf(am) and adapters.validated(am, need_no_prefixed=False) is not None:
                    ctx.call("reduce", am.reduce)
            return
    if case["after_assume"]:
        d = {}
        for lid in refmodel.leaves(graph, top):
            if rng.random() < 0.4:
                lo, hi = graph[lid]["b"]
                d[lid] = common.value_form(rng, rng.choice([lo, hi, rng.randint(lo, hi)]))
        comp = [c for c in refmodel.compounds(graph, top) if c != top]
        if comp and rng.random() < 0.4:
            d[rng.choice(comp)] = common.value_form(rng, rng.choice([0, 1]))
        am = ctx.call("assume", m.assume, d)
        ctx.count("count:after-assume")
        if adapters.is_leaf(am):
            ctx.count("assumed-model-is-a-constant")
            return
        if adapters.validated(am, need_no_prefixed=False) is None:
            ctx.count("assumed-model-not-validated")
            return
        ctx.call("reduce", am.reduce)
    else:
        ctx.call("reduce", m.reduce)


def run_case(case, ctx):
    """the base recipe, then its hostile twins (same ids, bounds/thresholds that collide under the library's hashes)"""
    for k, rec in enumerate(common.recipes_of(case)):
        sub = dict(case, recipe=rec)
        sub.pop("twins", None)
        if k:
            ctx.count("count:twin-runs")
        try:
            _run_one(sub, ctx)
        except monitor.OutOfScope:
            ctx.count("case:out_of_scope" if k == 0 else "twin:out_of_scope")
