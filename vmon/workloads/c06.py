"""C06 Partial evaluation and tautology/contradiction flags are sound.

Monitors: post-conditions on the real AtLeast.evaluate_propositions / evaluate (partial and interval-valued
interpretations) and on the property getters is_tautology, is_contradiction, equation_bounds.
Oracle: containment of the reference truth value of every reported node under *every* completion of the open
leaves (enumerated when the open box is small, corners+samples otherwise); flags and equation bounds against a
direct enumeration of the children's declared boxes (Python ints).
"""
import itertools
import random

import numpy
import puan
import puan.logic.plog as pg

from .. import adapters, monitor, recipes, refmodel
from . import common

PROP = "C06"
RULE = ("cases: random recipes evaluated on interpretations that fix, sub-range or omit each leaf at random (int, "
        "numpy.int64, (lo,hi), Bounds), optionally fixing sub-proposition ids to constants; flags and equation bounds "
        "read on every node of the model. non-trivial: >=1 leaf left open and the top is undecided (non-constant result) "
        "for the interpretation; distinct by (shape digest, open-leaf pattern)"
        ' Also: targeted nodes of every class over leaves whose bounds exclude 0 / are negative / constant, hostile twins.')
BUDGET = {"quick": (12, 780, 90), "thorough": (16, 2200, 1200)}
PYTEST = True     # thorough tier also runs the repository's own tests under these monitors
MANDATORY = ["judged:containment", "judged:tautology-sound", "judged:contradiction-sound", "judged:equation-bounds-exact",
             "count:flag-true:tautology", "count:flag-true:contradiction", "count:constant-result-with-open-leaves", "count:second-evaluation-on-one-object"]

_n = 0


def _rng(ctx):
    global _n
    _n += 1
    return random.Random(ctx.seed * 1000003 + _n)


def norm_value(v):
    """interpretation value -> (lo, hi) or None if not one of the documented forms"""
    if isinstance(v, bool):
        return None
    if isinstance(v, (int, numpy.integer)):
        return (int(v), int(v))
    if isinstance(v, tuple) and len(v) == 2:
        return (int(v[0]), int(v[1]))
    if isinstance(v, puan.Bounds):
        return (int(v.lower), int(v.upper))
    return None


def snap(args, kwargs):
    self = args[0]
    interp = args[1] if len(args) > 1 else kwargs.get("interpretation")
    if len(args) > 2 or "out" in kwargs or not isinstance(interp, dict):
        return None
    v = adapters.validated(self, need_no_prefixed=False)
    if v is None:
        return None
    graph, top, info = v
    box, ov = {}, {}
    for nid, n in graph.items():
        if n["leaf"]:
            box[nid] = tuple(n["b"])
    for k, val in interp.items():
        if k not in graph:
            continue
        nv = norm_value(val)
        if nv is None or nv[0] > nv[1]:
            return None
        if graph[k]["leaf"]:
            lo, hi = graph[k]["b"]
            if nv[0] < lo or nv[1] > hi:
                return None           # values outside the declared bounds are not in the property's domain
            box[k] = nv
        else:
            if nv[0] != nv[1]:
                return None           # interval assumptions on sub-proposition ids are C07's subject
            ov[k] = nv[0]
    return graph, top, box, ov


def judge_containment(ctx, graph, top, box, ov, reported, what):
    ids = sorted(box, key=repr)
    bounds = [box[i] for i in ids]
    order = refmodel.topo(graph, top)
    rng = _rng(ctx)
    cap = common.point_cap(ctx.tier, 96, 1024)
    bad = None
    n = 0
    for x, _ex in refmodel.assignments(ids, bounds, rng, cap):
        val = refmodel.truth(graph, top, x, ov, order=order)
        n += 1
        for nid, b in reported.items():
            if nid in val:
                lo, hi = common.as_tuple(b)
                if not (lo <= val[nid] <= hi):
                    bad = {"completion": x, "node": nid, "reported": [lo, hi], "value": val[nid]}
                    break
        if bad:
            break
    ctx.judged("containment", max(n - 1, 0))
    ctx.check(bad is None, "containment", lambda: {"model": gtext(graph, top), "box": {str(k): v for k, v in box.items()}, "overrides": ov, "bad": bad, "via": what})
    open_leaves = [i for i in ids if box[i][0] != box[i][1] and i in refmodel.visible(graph, top, ov)]
    topb = reported.get(top)
    if open_leaves and topb is not None:
        if common.const(topb) is None:
            ctx.nt((refmodel.shape_digest(graph, top), tuple(sorted(map(repr, open_leaves)))))
        else:
            ctx.count("count:constant-result-with-open-leaves")
    ctx.sample({"model": gtext(graph, top), "box": {str(k): list(v) for k, v in box.items()}, "overrides": ov,
                "reported": {str(k): list(common.as_tuple(v)) for k, v in reported.items()}, "completions": n})


def evalprops_post(pre, args, kwargs, result):
    if pre is None:
        raise monitor.OutOfScope()
    graph, top, box, ov = pre
    if not isinstance(result, dict):
        monitor.CTX.check(False, "containment", lambda: {"result_type": type(result).__name__})
        return True
    judge_containment(monitor.CTX, graph, top, box, ov, result, "evaluate_propositions")
    return True


def evaluate_post(pre, args, kwargs, result):
    if pre is None:
        raise monitor.OutOfScope()
    graph, top, box, ov = pre
    judge_containment(monitor.CTX, graph, top, box, ov, {top: result}, "evaluate")
    return True


# ------------------------------------------------------------------------------------------- flags
def node_snap(args, kwargs):
    self = args[0]
    if adapters.is_leaf(self):
        return None
    ch = [common.as_tuple(c.bounds) for c in self.propositions]
    return int(self.sign), int(self.value), ch


def eq_range(sign, value, ch):
    """exact attainable range of sign*sum(children) - value over the children's declared boxes"""
    lo = sum(min(sign * a, sign * b) for a, b in ch) - value
    hi = sum(max(sign * a, sign * b) for a, b in ch) - value
    size = 1
    for a, b in ch:
        size *= (b - a + 1)
        if size > 3000:
            break
    if size <= 3000:
        # independent confirmation by enumeration: every value of the range is attained, nothing outside
        vals = {sign * sum(t) - value for t in itertools.product(*[range(a, b + 1) for a, b in ch])}
        assert min(vals) == lo and max(vals) == hi, (lo, hi, min(vals), max(vals))
    return lo, hi


def taut_post(pre, args, kwargs, result):
    ctx = monitor.CTX
    if pre is None:
        raise monitor.OutOfScope()
    lo, hi = eq_range(*pre)
    if result:
        ctx.count("count:flag-true:tautology")
        ctx.check(lo >= 0, "tautology-sound", lambda: {"node": pre, "range": [lo, hi]})
    else:
        ctx.judged("tautology-sound")
    return True


def contra_post(pre, args, kwargs, result):
    ctx = monitor.CTX
    if pre is None:
        raise monitor.OutOfScope()
    lo, hi = eq_range(*pre)
    if result:
        ctx.count("count:flag-true:contradiction")
        ctx.check(hi < 0, "contradiction-sound", lambda: {"node": pre, "range": [lo, hi]})
    else:
        ctx.judged("contradiction-sound")
    return True


def eqb_post(pre, args, kwargs, result):
    ctx = monitor.CTX
    if pre is None:
        raise monitor.OutOfScope()
    lo, hi = eq_range(*pre)
    ctx.check(tuple(int(v) for v in result) == (lo, hi), "equation-bounds-exact",
              lambda: {"node": pre, "expected": [lo, hi], "got": list(result)})
    return True


def gtext(graph, top):
    return [[nid, graph[nid]["sign"], graph[nid]["ch"], graph[nid]["value"], list(graph[nid]["b"])] for nid in refmodel.topo(graph, top)]


def install(ctx):
    monitor.attach(pg.AtLeast, "evaluate_propositions", evalprops_post, snap)
    monitor.attach(pg.AtLeast, "evaluate", evaluate_post, snap)
    monitor.attach(pg.AtLeast, "is_tautology", taut_post, node_snap)
    monitor.attach(pg.AtLeast, "is_contradiction", contra_post, node_snap)
    monitor.attach(pg.AtLeast, "equation_bounds", eqb_post, node_snap)


def gen_case(rng, tier, ctx, i):
    if rng.random() < 0.025:
        rec = common.deep_chain(rng, rng.randint(34, 46))        # very deep nesting
        ctx.count("count:deep-models")
        return {"recipe": rec, "seed": rng.getrandbits(32), "flag_nodes": []}
    o = common.varied_opts(rng, tier, p_window=0.08)
    if rng.random() < 0.03:
        from . import c03
        sc = c03.special_case(rng, ctx)          # thresholds of large magnitude met/missed by one; sub-propositions without children
        sc.pop("interps", None)
        return sc
    if rng.random() < 0.06:
        from . import confgen
        ctx.count("count:configurator-models")
        return {"recipe": confgen.gen_config(rng), "seed": rng.getrandbits(32)}     # a configurator is a model too (often one that has already answered a structural question)
    rec = common.model_case(rng, tier, o)
    if rec is None:
        return None
    # nodes of every class over leaves whose bounds exclude 0, are negative, constant or wide: the flags are read on them
    FB = [(1, 1), (1, 3), (2, 2), (-3, 0), (-2, 2), (0, 1), (0, 1), (0, 0), (-1, -1), (0, 3), (-3, -1)]
    flag_nodes = []
    for _ in range(3):
        n = rng.randint(1, 4)
        args = [{"k": "var", "id": "f%d" % j, "b": list(rng.choice(FB))} for j in range(n)]
        k = rng.choice(["Any", "All", "AtLeast", "AtMost", "Xor", "XNor", "Imply", "Not"])
        if rng.random() < 0.3:
            args[0] = {"k": rng.choice(["Any", "All"]), "id": None, "args": [{"k": "var", "id": "g0", "b": [0, 1]}, {"k": "var", "id": "g1", "b": list(rng.choice(FB))}]}
        node = {"k": k, "id": None, "args": args}
        if k in ("AtLeast", "AtMost"):
            node["value"] = rng.randint(-2, n + 1)
            if k == "AtLeast" and rng.random() < 0.5:
                node["sign"] = rng.choice([-1, 1])
        if k == "Imply":
            node["args"] = (args + [{"k": "var", "id": "h", "b": list(rng.choice(FB))}])[:2]
        if k == "Not":
            node["args"] = args[:1]
        if rng.random() < 0.3 and k != "Not":
            node["id"] = "FN"
            node["fix"] = rng.choice([0, 1])        # the node's own variable is fixed independently of its children: the flags are about the children
        flag_nodes.append(node)
    return common.with_twins(rng, {"recipe": rec, "seed": rng.getrandbits(32), "flag_nodes": flag_nodes})


def rand_partial(rng, graph, top):
    d = {}
    for lid in refmodel.leaves(graph, top):
        lo, hi = graph[lid]["b"]
        r = rng.random()
        if r < 0.35:
            continue
        if r < 0.7:
            d[lid] = common.value_form(rng, rng.choice([lo, hi, rng.randint(lo, hi)]))
        else:
            a = rng.randint(lo, hi) if hi - lo < 50 else rng.choice([lo, hi - 1, rng.randint(lo, hi)])
            b = rng.randint(a, hi) if hi - a < 50 else rng.choice([a + 1, hi])
            d[lid] = rng.choice([(a, b), puan.Bounds(a, b)])
    if rng.random() < 0.2:
        comp = refmodel.compounds(graph, top)
        c = rng.choice(comp)
        d[c] = common.value_form(rng, rng.choice([0, 1]))
    return d


def _run_one(case, ctx):
    rng = random.Random(case["seed"])
    for fr in case.get("flag_nodes", []):
        fm = recipes.fresh(fr)
        if adapters.is_leaf(fm):
            continue
        _g, _t, finfo = adapters.graph_of(fm)
        if fr.get("id") == "FN" and fr.get("fix") is None or (fr.get("k") in ("Any", "All", "AtLeast") and rng.random() < 0.3):
            # nodes the library hands out itself with a settled variable: assume() settles it, negate() keeps it
            try:
                lv = [l for l in refmodel.leaves(_g, _t)]
                if lv:
                    lid = rng.choice(lv)
                    am = recipes.fresh(fr).assume({lid: rng.choice(list(_g[lid]["b"]))})
                    for dn in [am] + ([am.negate()] if not adapters.is_leaf(am) else []):
                        if not adapters.is_leaf(dn):
                            ctx.count("count:flag-node:derived")
                            ctx.call("is_tautology", lambda o=dn: o.is_tautology)
                            ctx.call("is_contradiction", lambda o=dn: o.is_contradiction)
                            ctx.call("equation_bounds", lambda o=dn: o.equation_bounds)
            except monitor.ContractBroken:
                raise
            except Exception:
                ctx.count("flag-node:derived:not-built")
        for nid, obj in finfo["objects"].items():
            if not adapters.is_leaf(obj):
                ctx.count("count:flag-node:" + type(obj).__name__)
                ctx.call("is_tautology", lambda o=obj: o.is_tautology)
                ctx.call("is_contradiction", lambda o=obj: o.is_contradiction)
                ctx.call("equation_bounds", lambda o=obj: o.equation_bounds)
    m0 = recipes.fresh(case["recipe"])
    if adapters.is_leaf(m0):
        raise monitor.OutOfScope()
    graph, top, info = common.domain(m0, recipe=case["recipe"])
    # flags on every node
    for nid, obj in info["objects"].items():
        if not adapters.is_leaf(obj):
            ctx.call("is_tautology", lambda o=obj: o.is_tautology)
            ctx.call("is_contradiction", lambda o=obj: o.is_contradiction)
            ctx.call("equation_bounds", lambda o=obj: o.equation_bounds)
    # two evaluations in a row on ONE object: the second one (leaves of the first left open again) is judged against the model
    # as it was built from the recipe -- an oracle reading the bounds back from the object would agree with a leaked narrowing
    if rng.random() < 0.4:
        same = recipes.fresh(case["recipe"])
        d1 = {k_: v_ for k_, v_ in rand_partial(rng, graph, top).items() if graph[k_]["leaf"]}
        held = dict(d1)
        ctx.call("evaluate_propositions", same.evaluate_propositions, held)
        d2 = {k_: v_ for k_, v_ in rand_partial(rng, graph, top).items() if graph[k_]["leaf"] and rng.random() < 0.5}
        if rng.random() < 0.5:
            # the caller keeps ONE interpretation dict and edits it in place between the two calls
            held.clear()
            held.update(d2)
            ctx.count("count:interpretation-dict-edited-in-place")
        else:
            held = dict(d2)
        r2 = ctx.call("evaluate_propositions", same.evaluate_propositions, held)
        box = {nid: tuple(n["b"]) for nid, n in graph.items() if n["leaf"]}
        for k_, v_ in d2.items():
            box[k_] = norm_value(v_)
        ctx.count("count:second-evaluation-on-one-object")
        judge_containment(ctx, graph, top, box, {}, r2, "second evaluation on the same object")
    for _ in range(4 if ctx.tier == "quick" else 8):
        d = rand_partial(rng, graph, top)
        m = recipes.fresh(case["recipe"])
        if rng.random() < 0.15 and d and all(isinstance(v, int) and not isinstance(v, bool) for v in d.values()):
            # other mapping types a caller may hold its values in (they are dicts): leaves that are not keys stay unspecified
            import collections
            d = rng.choice([collections.Counter, lambda d_: collections.defaultdict(int, d_), collections.OrderedDict])(d)
            ctx.count("count:dict-subclass-interpretations")
            ctx.call("evaluate_propositions", m.evaluate_propositions, d)
            continue
        if rng.random() < 0.6:
            ctx.call("evaluate_propositions", m.evaluate_propositions, dict(d))
        else:
            ctx.call("evaluate", m.evaluate, dict(d))


def run_case(case, ctx):
    """the base recipe, then its hostile twins (same ids, bounds/thresholds that collide under the library's hashes)"""
    for k, rec in enumerate(common.recipes_of(case)):
        sub = dict(case, recipe=rec)
        sub.pop("twins", None)
        if k:
            ctx.count("count:twin-runs")
        try:
            _run_one(sub, ctx)
        except monitor.OutOfScope:
            ctx.count("case:out_of_scope" if k == 0 else "twin:out_of_scope")
