"""C18 Extending a configurator equals building it with the extra rule.

Recorded add-history c0 -> add(r1) -> ... -> add(rn) and an offline checker: after every prefix the configurator
returned by add() is compared with StingyConfigurator(*rules0, r1..rk, id=c0.id) built directly from the recipes
(state digest, default priorities, polyhedron, select() with the harness's exact solver); the id is kept; the digest
of every earlier configurator is unchanged; a rule whose id names an existing top-level rule or item is refused and
leaves everything unchanged.
"""
import copy
import random

import numpy
import puan
import puan.modules.configurator as cc

from .. import adapters, digest, monitor, recipes, refmodel
from . import confgen, c14

PROP = "C18"
RULE = ("cases: histories of 1-6 add() calls on configurators over 3-6 boolean items; rules plain, defaulted, Imply, with explicit and generated "
        "ids, bare items, and rules whose id collides with an existing top-level rule/item (must be refused). non-trivial: >=2 accepted additions "
        "and at least one defaulted rule; distinct by digest of the history"
        ' Histories are trees (an addition may extend an earlier configurator); additions include bare items with integer bounds.')
BUDGET = {"quick": (12, 360, 90), "thorough": (16, 1500, 1200)}
PYTEST = True     # thorough tier also runs the repository's own tests under these monitors
MANDATORY = ["judged:add==direct:state", "judged:add==direct:default_prios", "judged:add==direct:polyhedron", "judged:add==direct:select",
             "judged:id-kept", "judged:earlier-unchanged", "judged:refused", "judged:refusal-leaves-unchanged", "contract:StingyConfigurator.add", "count:branching-additions", "count:item-additions", "count:catalogue(>=250 top-level ids)"]


def add_snap(args, kwargs):
    self = args[0]
    prop = args[1] if len(args) > 1 else kwargs.get("proposition")
    return digest.state(self), self.id, [p.id for p in self.propositions], getattr(prop, "id", None), digest.state(prop)


def add_post(pre, args, kwargs, result):
    """every observed add(): id kept, receiver unchanged, new rule present, old rules kept"""
    ctx = monitor.CTX
    self = args[0]
    st, sid, rule_ids, pid, pst = pre
    ctx.check(result.id == sid, "id-kept", lambda: {"before": sid, "after": result.id})
    ctx.check(digest.state(self) == st, "receiver-unchanged", lambda: {"diff": digest.first_diff(st, digest.state(self))})
    got = [p.id for p in result.propositions]
    ctx.check(sorted(map(str, got)) == sorted(map(str, rule_ids + [pid])), "rules-are-old-plus-new", lambda: {"old": rule_ids, "new": pid, "got": got})
    return True


def install(ctx):
    monitor.attach(cc.StingyConfigurator, "add", add_post, add_snap)


def gen_case(rng, tier, ctx, i):
    base = confgen.gen_config(rng, cid=rng.random() < 0.8)
    items = confgen.ITEMS[:6]
    r0 = rng.random()
    if r0 < 0.08:
        base = {"k": "Stingy", "id": "cfg", "args": []}          # a configurator that starts without any rule
    elif r0 < 0.4:
        it = confgen.V(rng.choice(items))                         # a bare top-level item
        if rng.random() < 0.4:
            it["cls"] = "sub"                                     # ... of a subclass of puan.variable
            it["id"] = rng.choice(["Apple-big", it["id"]])
        base["args"].append(it)
    cnt = [100]

    def idgen():
        cnt[0] += 1
        return "N%d" % cnt[0]
    if rng.random() < 0.04:
        # a catalogue: a few rules and some hundred top-level items (nothing in the statement bounds the number of top-level ids)
        n = rng.choice([250, 255, 256, 257, 258, 300, 340])
        wide = [{"k": "var", "id": "w%03d" % k, "b": [0, 1]} for k in range(n)]
        base["args"] = base["args"][:2] + wide
        adds = []
        for _ in range(rng.randint(1, 3)):
            if rng.random() < 0.6:
                rule = confgen.gen_rule(rng, items, idgen)
                if rule["k"] != "Not":
                    rule["id"] = rng.choice(wide)["id"] if rng.random() < 0.7 or not base["args"][0].get("id") else base["args"][0]["id"]
                    rule["_refuse"] = True
                    adds.append(rule)
                    continue
            adds.append(confgen.gen_rule(rng, items, idgen, p_id=0.6))
        return {"base": base, "adds": adds, "parents": list(range(len(adds))), "seed": rng.getrandbits(32), "catalogue": n}
    adds = []
    for _ in range(rng.randint(1, 6)):
        r = rng.random()
        if r < 0.2:
            # collision with an existing top-level id (rule or item)
            tops = [a for a in base["args"] + [x for x in adds if not x.get("_refuse")] if a.get("id") and a["k"] not in ("var",)]
            tl_items = [a for a in base["args"] if a["k"] == "var"]
            anyrule = [a for a in base["args"] + [x for x in adds if not x.get("_refuse")] if a["k"] != "var"]
            if anyrule and rng.random() < 0.35:
                # an existing top-level rule (named or anonymous) offered once more with identical content
                import copy
                rule = copy.deepcopy(rng.choice(anyrule))
                rule["_refuse"] = True
                adds.append(rule)
                continue
            if tl_items and rng.random() < 0.4:
                rule = confgen.gen_rule(rng, items, idgen)
                rule["id"] = rng.choice(tl_items)["id"]          # a rule named like an existing top-level item
                rule["_refuse"] = True
                adds.append(rule)
                continue
            if tops and (not tl_items or rng.random() < 0.7):
                victim = rng.choice(tops)
                rule = confgen.gen_rule(rng, items, idgen)
                if rule["k"] == "Not":
                    continue
                rule["id"] = victim["id"]
                rule["_refuse"] = True
                adds.append(rule)
                continue
        if r < 0.3:
            # a bare item (any variable is a proposition): boolean, integer ranges, fixed
            used = {a["id"] for a in base["args"] + adds if a["k"] == "var"}
            free = [i for i in ["n", "m", "t", "u"] + items if i not in used]
            if free:
                adds.append({"k": "var", "id": rng.choice(free), "b": list(rng.choice([(0, 1), (0, 3), (-2, 2), (1, 1), (0, 1)]))})
                continue
        rule = confgen.gen_rule(rng, items, idgen, p_id=0.6)
        adds.append(rule)
    # histories are trees, not only chains: each addition names the configurator (by position in the history) it extends
    parents = []
    for k in range(len(adds)):
        parents.append(k if rng.random() < 0.65 else rng.randint(0, k))       # k = the latest one, smaller = an earlier one
    return {"base": base, "adds": adds, "parents": parents, "seed": rng.getrandbits(32)}


def solve_all(cfg, prios):
    rec = {}
    out = list(cfg.select(*[dict(p) for p in prios], solver=confgen.exact_solver_factory(rec)))
    return [({k: int(v) for k, v in r[0].items()}, r[1], r[2]) for r in out], rec


def run_case(case, ctx):
    rng = random.Random(case["seed"])
    c14.clear_caches()
    base = case["base"]
    c0 = recipes.fresh(base)
    if adapters.validated(c0) is None:
        raise monitor.OutOfScope()
    cid = c0.id
    # live[k] = (configurator, its state digest, the recipes of the rules it was extended with)
    live = [(c0, digest.state(c0), [])]
    history = []
    naccepted = 0
    if case.get("catalogue"):
        ctx.count("count:catalogue(>=250 top-level ids)")
    parents = case.get("parents") or list(range(len(case["adds"])))
    for step, rule in enumerate(case["adds"]):
        clean = recipes.strip(rule)
        pk = min(parents[step], len(live) - 1)
        c, _, accepted = live[pk]
        robj = recipes.fresh(clean)
        existing = {p.id for p in c.propositions}
        must_refuse = robj.id in existing
        history.append({"extends": pk, "rule": clean, "must_refuse": must_refuse})
        w = lambda **kw: dict({"history": history, "base": base}, **kw)
        if must_refuse:
            before = digest.state(c)
            try:
                c.add(robj)
                ctx.check(False, "refused", lambda: w(note="add() accepted a rule whose id names an existing top-level rule/item"))
                return
            except monitor.ContractBroken:
                raise
            except Exception:
                ctx.check(True, "refused", None)
            ctx.check(digest.state(c) == before, "refusal-leaves-unchanged", lambda: w(diff=digest.first_diff(before, digest.state(c))))
            continue
        direct_recipe = {"k": "Stingy", "id": cid, "args": list(base["args"]) + accepted + [clean]}
        c14.clear_caches()
        direct = recipes.fresh(direct_recipe)
        if adapters.validated(direct) is None:
            ctx.count("direct-construction-not-validated(step skipped)")
            history.pop()
            continue
        new = ctx.call("add", c.add, robj)           # an exception here (e.g. a refusal of a rule that must be accepted) is a violation
        naccepted += 1
        if pk != len(live) - 1:
            ctx.count("count:branching-additions")
        if clean["k"] == "var":
            ctx.count("count:item-additions")
        s_new, s_dir = digest.state(new), digest.state(direct)
        ctx.check(s_new == s_dir, "add==direct:state", lambda: w(diff=digest.first_diff(s_new, s_dir)))
        ctx.check(new.id == cid, "id-kept", lambda: w(expected=cid, got=new.id))
        ctx.check(new.default_prios == direct.default_prios, "add==direct:default_prios",
                  lambda: w(add={str(k): v for k, v in new.default_prios.items()}, direct={str(k): v for k, v in direct.default_prios.items()}))
        c14.clear_caches()
        p_new = new.ge_polyhedron
        c14.clear_caches()
        p_dir = direct.ge_polyhedron
        c14.clear_caches()
        ctx.check(digest.array_state(p_new) == digest.array_state(p_dir), "add==direct:polyhedron",
                  lambda: w(diff=digest.first_diff(digest.array_state(p_new), digest.array_state(p_dir))))
        ids = [v.id for v in p_dir.variables][1:]
        box = [v.bounds.as_tuple() for v in p_dir.variables][1:]
        if refmodel.box_size(box, 1 << 16) <= (1 << 16):
            prios = [{rng.choice(ids): rng.choice([-2, -1, 1, 2, 3]) for _ in range(rng.randint(0, 3))} for _ in range(2)]
            c14.clear_caches()
            r_new, _ = solve_all(new, prios)
            c14.clear_caches()
            r_dir, _ = solve_all(direct, prios)
            c14.clear_caches()
            ctx.check(r_new == r_dir, "add==direct:select", lambda: w(prios=prios, add=r_new, direct=r_dir))
        bad = None
        for k, (obj, st, _acc) in enumerate(live):
            now = digest.state(obj)
            if now != st:
                bad = {"configurator": k, "diff": digest.first_diff(st, now)}
                break
        ctx.check(bad is None, "earlier-unchanged", lambda: w(bad=bad))
        live.append((new, s_new, accepted + [clean]))
    if naccepted >= 2 and any(n.get("default") for r in [base] + [h["rule"] for h in history] for n in refmodel.recipe_nodes(r)):
        ctx.nt(monitor.digest([base, history]))
    ctx.sample({"base": base, "history": history, "accepted": naccepted})
