"""C20 Id/position bridges are faithful.

Monitors: post-conditions on the real variable_ndarray.construct, variable_indices (and the boolean_/integer_
properties), integer_ndarray.from_list, boolean_ndarray.from_list / to_list, ge_polyhedron.A / b / to_linalg.
Oracle: position-by-position definitions written from the statement.
"""
import math
import random

import numpy
import puan
import puan.ndarray as pnd

from .. import monitor
from . import polygen

PROP = "C20"
RULE = ("cases: arrays with variables whose ids are str / unicode / empty / int-like strings, duplicate-free, bounds boolean and integer; "
        "construct with partial dictionaries, unknown ids, callable defaults and dtypes int/int32/int64/float/float32; from_list with flat "
        "and one-level nested lists incl. unknown ids; to_list on 1-D and 2-D; A/b/to_linalg on polyhedra with index. non-trivial: the "
        "dictionary/list names some but not all columns (construct/from_list), both kinds of variables exist (indices); distinct by digest"
        ' Also: twin arrays with equal ids whose bounds have the same sum but differ in (0,1)-ness; variables declared with dtype="int" '
        '(bounds -32768..32767) and user subclasses of variable; sequences in which a declared array is first used for read-only questions that wrap it '
        'again (separable, neglectable_columns, neglect_columns, ge_polyhedron(P), boolean_ndarray(a, variables=other)) and the declared association '
        'is compared before/after, then the bridge functions are asked on the first object.')
BUDGET = {"quick": (12, 3000, 90), "thorough": (16, 8000, 1200)}
PYTEST = True     # thorough tier also runs the repository's own tests under these monitors
MANDATORY = ["judged:construct", "judged:construct:callable-default", "judged:construct:float-nan-default", "judged:construct:int-lower-default",
             "judged:boolean-integer-partition", "judged:integer.from_list", "judged:boolean.from_list", "judged:to_list:1D", "judged:to_list:2D",
             "judged:A", "judged:b", "judged:to_linalg", "judged:rewrap:polyhedron", "judged:rewrap:array", "judged:construct:default-min-int-lower", "count:construct:non-string-ids"]


# ------------------------------------------------------------------------------------------- construct
def construct_snap(args, kwargs):
    self = args[0]
    if getattr(self, "variables", None) is None:
        return None
    return [(v.id, int(v.bounds.lower), int(v.bounds.upper)) for v in self.variables], list(self.variables)


def construct_post(pre, args, kwargs, result):
    ctx = monitor.CTX
    if pre is None:
        raise monitor.OutOfScope()
    vs, vobjs = pre
    vv = args[1] if len(args) > 1 else kwargs.get("variable_values")
    dv = args[2] if len(args) > 2 else kwargs.get("default_value")
    dt = args[3] if len(args) > 3 else kwargs.get("dtype", numpy.int64)
    if not isinstance(vv, dict):
        raise monitor.OutOfScope()
    is_int = isinstance(dt, type) and issubclass(dt, (int, numpy.integer))
    exp = []
    for (vid, lo, hi), vo in zip(vs, vobjs):
        if vid in vv:
            exp.append(vv[vid])
        elif callable(dv):
            exp.append(dv(vo))
        elif is_int:
            exp.append(lo)
        else:
            exp.append(float("nan"))
    got = numpy.asarray(result)
    ok = got.shape == (len(vs),) and got.dtype == numpy.dtype(dt)
    if ok:
        for g, e in zip(got.tolist(), exp):
            if isinstance(e, float) and math.isnan(e):
                ok = ok and isinstance(g, float) and math.isnan(g)
            else:
                ok = ok and g == numpy.dtype(dt).type(e)
    sub = "construct"
    ctx.check(ok, sub, lambda: {"variables": vs, "values": {str(k): v for k, v in vv.items()}, "dtype": str(dt), "got": got.tolist(), "expected": [repr(e) for e in exp]})
    named = [v[0] for v in vs if v[0] in vv]
    if callable(dv) and len(named) < len(vs):
        ctx.judged("construct:callable-default")
    elif not is_int and len(named) < len(vs):
        ctx.judged("construct:float-nan-default")
    elif is_int and len(named) < len(vs):
        ctx.judged("construct:int-lower-default")
        if any(v[1] == -32768 and v[0] not in vv for v in vs):
            ctx.judged("construct:default-min-int-lower")
    if 0 < len(named) < len(vs):
        ctx.nt(monitor.digest(["construct", vs, sorted(map(str, vv)), str(dt), callable(dv)]))
    ctx.sample({"fn": "construct", "variables": vs, "values": {str(k): v for k, v in vv.items()}, "dtype": str(dt), "result": [repr(x) for x in got.tolist()]}, cap=3)
    return True


# ------------------------------------------------------------------------------------------- indices
def indices_post(pre, args, kwargs, result):
    ctx = monitor.CTX
    self = args[0]
    dt = args[1] if len(args) > 1 else kwargs.get("variable_dtype")
    if getattr(self, "variables", None) is None or dt not in (puan.Dtype.BOOL, puan.Dtype.INT):
        raise monitor.OutOfScope()
    vs = [(v.id, int(v.bounds.lower), int(v.bounds.upper)) for v in self.variables]
    boolean = [i for i, v in enumerate(vs) if (v[1], v[2]) == (0, 1)]
    integer = [i for i, v in enumerate(vs) if (v[1], v[2]) != (0, 1)]
    exp = boolean if dt == puan.Dtype.BOOL else integer
    got = [int(x) for x in numpy.asarray(result).reshape(-1)]
    ctx.check(got == exp, "boolean-integer-partition", lambda: {"variables": vs, "dtype": str(dt), "got": got, "expected": exp})
    if boolean and integer:
        ctx.nt(monitor.digest(["indices", vs, str(dt)]))
    return True


# ------------------------------------------------------------------------------------------- lists
def _nested(lst):
    return len(lst) > 0 and isinstance(lst[0], (list, tuple))


def from_list_post_factory(kind):
    def post(pre, args, kwargs, result):
        ctx = monitor.CTX
        lst = args[0] if args else kwargs.get("lst")
        context = args[1] if len(args) > 1 else kwargs.get("context")
        if not isinstance(lst, list) or not isinstance(context, list):
            raise monitor.OutOfScope()
        if len(lst) == 0:
            ctx.count("from_list:empty-list(not judged)")
            return True
        if kind == "integer" and isinstance(lst[0], tuple):
            raise monitor.OutOfScope()
        key = lambda z: getattr(z, "id", z)          # a variable stands for its id (what to_list hands out can be fed back in)

        def row(l):
            ks = [key(y) for y in l]
            if kind == "boolean":
                return [1 if key(x) in ks else 0 for x in context]
            return [(ks.index(key(x)) + 1) if key(x) in ks else 0 for x in context]
        if _nested(lst):
            if any((not isinstance(l, (list, tuple))) or len(l) == 0 or _nested(list(l)) for l in lst):
                raise monitor.OutOfScope()
            exp = [row(list(l)) for l in lst]
        else:
            if any(isinstance(x, (list, tuple)) for x in lst):
                raise monitor.OutOfScope()
            exp = row(lst)
        got = numpy.asarray(result)
        ctx.check(got.tolist() == exp, kind + ".from_list", lambda: {"lst": repr(lst), "context": repr(context), "got": got.tolist(), "expected": exp})
        flat = [key(x) for l in lst for x in l] if _nested(lst) else [key(x) for x in lst]
        ckeys = [key(x) for x in context]
        if any(x in ckeys for x in flat) and any(x not in flat for x in ckeys):
            ctx.nt(monitor.digest([kind, "from_list", repr(lst), repr(context)]))
        ctx.sample({"fn": kind + ".from_list", "lst": repr(lst), "context": repr(context), "result": got.tolist()}, cap=5)
        return True
    return post


def to_list_post(pre, args, kwargs, result):
    ctx = monitor.CTX
    self = args[0]
    a = numpy.asarray(self)
    if getattr(self, "variables", None) is None or a.ndim not in (1, 2) or len(self.variables) != a.shape[-1]:
        raise monitor.OutOfScope()
    vs = list(self.variables)
    if a.ndim == 1:
        exp = [vs[j] for j in range(a.shape[0]) if a[j] == 1]
        ok = isinstance(result, list) and len(result) == len(exp) and all(g is e or (g.id == e.id and g.bounds == e.bounds) for g, e in zip(result, exp))
    else:
        exp = [[vs[j] for j in range(a.shape[1]) if a[i, j] == 1] for i in range(a.shape[0])]
        ok = isinstance(result, list) and len(result) == len(exp) and all(
            isinstance(r, list) and len(r) == len(e) and all(g.id == x.id and g.bounds == x.bounds for g, x in zip(r, e)) for r, e in zip(result, exp))
    ctx.check(ok, "to_list:%dD" % a.ndim, lambda: {"array": a.tolist(), "variables": [v.id for v in vs], "got": repr(result)[:400], "expected": repr(exp)[:400]})
    if (a == 1).any() and not (a == 1).all():
        ctx.nt(monitor.digest(["to_list", a.tolist(), [str(v.id) for v in vs]]))
    return True


# ------------------------------------------------------------------------------------------- A / b
def ab_snap(args, kwargs):
    self = args[0]
    M = numpy.asarray(self)
    if M.ndim != 2 or getattr(self, "variables", None) is None or len(self.variables) != M.shape[1]:
        return None
    return M.copy(), [(v.id, v.bounds.as_tuple()) for v in self.variables], [getattr(i, "id", i) for i in self.index]


def vars_of(x):
    return [(v.id, v.bounds.as_tuple()) for v in x.variables]


def check_A(pre, A):
    M, vs, idx = pre
    a = numpy.asarray(A)
    return a.shape == (M.shape[0], M.shape[1] - 1) and numpy.array_equal(a, M[:, 1:]) and vars_of(A) == vs[1:] and [getattr(i, "id", i) for i in A.index] == idx


def A_post(pre, args, kwargs, result):
    ctx = monitor.CTX
    if pre is None:
        raise monitor.OutOfScope()
    ctx.check(check_A(pre, result), "A", lambda: {"M": pre[0].tolist(), "variables": pre[1], "got": numpy.asarray(result).tolist(), "got_vars": vars_of(result)})
    ctx.nt(monitor.digest(["A", pre[0].tolist(), [str(v[0]) for v in pre[1]]]))
    return True


def b_post(pre, args, kwargs, result):
    ctx = monitor.CTX
    if pre is None:
        raise monitor.OutOfScope()
    ctx.check(numpy.asarray(result).tolist() == pre[0][:, 0].tolist(), "b", lambda: {"M": pre[0].tolist(), "got": numpy.asarray(result).tolist()})
    return True


def linalg_post(pre, args, kwargs, result):
    ctx = monitor.CTX
    if pre is None:
        raise monitor.OutOfScope()
    ok = isinstance(result, tuple) and len(result) == 2 and check_A(pre, result[0]) and numpy.asarray(result[1]).tolist() == pre[0][:, 0].tolist()
    ctx.check(ok, "to_linalg", lambda: {"M": pre[0].tolist(), "got": [numpy.asarray(r).tolist() for r in result]})
    return True


def install(ctx):
    V = pnd.variable_ndarray
    monitor.attach(V, "construct", construct_post, construct_snap)
    monitor.attach(V, "variable_indices", indices_post, None)
    monitor.attach(pnd.integer_ndarray, "from_list", from_list_post_factory("integer"), None)
    monitor.attach(pnd.boolean_ndarray, "from_list", from_list_post_factory("boolean"), None)
    monitor.attach(pnd.boolean_ndarray, "to_list", to_list_post, None, top_only=True)
    monitor.attach(pnd.ge_polyhedron, "A", A_post, ab_snap)
    monitor.attach(pnd.ge_polyhedron, "b", b_post, ab_snap)
    monitor.attach(pnd.ge_polyhedron, "to_linalg", linalg_post, ab_snap)
    monitor.rebind_alias(pnd, "to_linalg", pnd.ge_polyhedron, "to_linalg")


IDS = ["x", "y", "z", "w", "", " ", "ä", "日本", "0", "1", "a,b", "q'r", "A", "VARx"]


def gen_vars(rng, n):
    ids = rng.sample(IDS, n)
    out = []
    for i in ids:
        r = rng.random()
        if r < 0.5:
            out.append([i, 0, 1])
        elif r < 0.6:
            out.append([i, 1, 1])
        elif r < 0.7:
            out.append([i, 0, 0])
        elif r < 0.74:
            # a declared dtype that says something else than the bounds: the partition is by bounds
            out.append(rng.choice([[i, 0, 1, "int01"], [i, rng.randint(-3, 0), rng.randint(2, 4), "boolB"]]))
        elif r < 0.80:
            # the library's own integer variables: dtype="int" means bounds (-32768, 32767); the extremes are ordinary declared bounds
            out.append(rng.choice([[i, -32768, 32767, "int"], [i, -32768, rng.randint(-3, 5)], [i, -32767, 10], [i, rng.randint(-5, 0), 32767]]))
        else:
            lo = rng.randint(-5, 3)
            out.append([i, lo, lo + rng.randint(1, 6)])
    return out


def gen_case(rng, tier, ctx, i):
    kind = rng.choice(["construct", "construct", "indices", "ifrom", "bfrom", "to_list", "ab", "rewrap"])
    n = rng.randint(1, 7)
    vs = gen_vars(rng, n)
    c = {"kind": kind, "vars": vs, "seed": rng.getrandbits(32)}
    if kind in ("ab", "rewrap"):
        c["poly"] = polygen.gen_poly(rng, allow_int16=False)
    return c


class ItemVar(puan.variable):
    """a user's own variable class (an item with extra attributes)"""
    def __init__(self, id, bounds=None, dtype=None):
        super().__init__(id, bounds, dtype)
        self.label = "item " + str(id)


def decl(x):
    return [(v.id, v.bounds.as_tuple(), type(v).__name__) for v in x.variables], [getattr(i, "id", i) for i in getattr(x, "index", [])]


def run_rewrap(case, ctx, rng, vs):
    """a declared array is used for read-only questions that wrap it again inside the library (ge_polyhedron(self), boolean_ndarray(vec, variables=..));
    afterwards the declared id/column association must still be the one that was declared, and the bridge functions are asked on the first object"""
    if rng.random() < 0.6:
        P = polygen.build_poly(dict(case["poly"], dtype=None) if rng.random() < 0.7 else case["poly"])
        before = decl(P)
        n = numpy.asarray(P).shape[1] - 1
        done = []
        for _ in range(rng.randint(1, 3)):
            q = rng.choice(["separable2", "separable1", "neglectable", "neglect", "wrap", "wrap-other", "A", "ineqs", "reducable", "col_bounds", "copy-view"])
            done.append(q)
            try:
                if q == "separable2":
                    P.separable(numpy.array([[rng.randint(-2, 2) for _ in range(n)] for _ in range(rng.randint(1, 3))], dtype=numpy.int64))
                elif q == "separable1":
                    P.separable(numpy.array([rng.randint(-2, 2) for _ in range(n)], dtype=numpy.int64))
                elif q == "neglectable":
                    P.neglectable_columns(numpy.array([[rng.randint(0, 1) for _ in range(n)]], dtype=numpy.int64))
                elif q == "neglect":
                    P.neglect_columns(numpy.array([rng.randint(0, 1) for _ in range(n)], dtype=numpy.int64))
                elif q == "wrap":
                    pnd.ge_polyhedron(P)
                elif q == "wrap-other":
                    pnd.ge_polyhedron(P, variables=[puan.variable("o%d" % k, bounds=(-1, 2)) for k in range(n + 1)])
                elif q == "A":
                    P.A, P.b
                elif q == "ineqs":
                    P.ineqs_satisfied(numpy.array([[rng.randint(-2, 2) for _ in range(n)]], dtype=numpy.int64))
                elif q == "reducable":
                    P.reducable_rows_and_columns()
                elif q == "col_bounds":
                    P.column_bounds()
                else:
                    P.view(pnd.ge_polyhedron), P.copy(), P[:1]
            except Exception as e:       # a question the input does not admit (not this property's matter): the association is still judged
                ctx.count("count:rewrap-query-raised:" + type(e).__name__)
        after = decl(P)
        ctx.judged("rewrap:polyhedron")
        ctx.check(before == after, "declared-association-kept", lambda: {"queries": done, "declared": before, "afterwards": after, "M": numpy.asarray(P).tolist()})
        ctx.nt(monitor.digest(["rewrap", done, before[0]]))
        ctx.call("A", lambda: P.A)
        ctx.call("to_linalg", P.to_linalg)
        vv = {v.id: 1 for v in P.variables[1:][:2]}
        got = ctx.call("construct", P.A.construct, vv)
        if n >= 1 and rng.random() < 0.5:
            # one column is re-declared afterwards (an element of P.variables is replaced: tightened bounds / renamed): A, to_linalg and what
            # they construct are about the columns as they are declared now
            ctx.call("boolean_variable_indices", lambda: P.boolean_variable_indices)       # asked on this very object before ...
            ctx.call("integer_variable_indices", lambda: P.integer_variable_indices)
            j = rng.randrange(1, n + 1)
            old_v = P.variables[j]
            lo_, hi_ = old_v.bounds.as_tuple()
            P.variables[j] = rng.choice([lambda: puan.variable(old_v.id, bounds=(lo_ + (hi_ > lo_), hi_)), lambda: puan.variable(str(old_v.id) + "'", bounds=(lo_, hi_)),
                                         lambda: puan.variable(old_v.id, bounds=(hi_, hi_)), lambda: puan.variable(old_v.id, bounds=(0, 1) if (lo_, hi_) != (0, 1) else (0, 5))])()
            ctx.call("boolean_variable_indices", lambda: P.boolean_variable_indices)       # ... and after the column was re-declared
            ctx.call("integer_variable_indices", lambda: P.integer_variable_indices)
            ctx.count("count:column-redeclared-in-place")
            ctx.call("A", lambda: P.A)
            ctx.call("to_linalg", P.to_linalg)
            ctx.call("construct", P.A.construct, {})
            ctx.call("boolean_variable_indices", lambda: P.A.boolean_variable_indices)
        return
    cls = rng.choice([pnd.boolean_ndarray, pnd.integer_ndarray, pnd.variable_ndarray])
    a = cls(numpy.array([[rng.randint(0, 1) for _ in vs] for _ in range(rng.randint(1, 2))], dtype=numpy.int64), variables=vs)
    before = decl(a)
    other = [puan.variable("o%d" % k, bounds=(0, 3)) for k in range(len(vs))]
    done = []
    for _ in range(rng.randint(1, 2)):
        q = rng.choice(["same-class-other-vars", "same-class-default", "other-class", "row", "view"])
        done.append(q)
        if q == "same-class-other-vars":
            b = cls(a, variables=other)
            ctx.check(decl(b)[0] == [(v.id, v.bounds.as_tuple(), "variable") for v in other], "declared-association-kept",
                      lambda: {"queries": done, "second-wrapper": decl(b), "asked-for": [v.id for v in other]})
        elif q == "same-class-default":
            cls(a)
        elif q == "other-class":
            rng.choice([pnd.boolean_ndarray, pnd.integer_ndarray, pnd.variable_ndarray])(a, variables=other)
        elif q == "row":
            cls(a[0], variables=other)
        else:
            a.view(cls), a.copy()
    after = decl(a)
    ctx.judged("rewrap:array")
    ctx.check(before == after, "declared-association-kept", lambda: {"queries": done, "declared": before, "afterwards": after})
    ctx.nt(monitor.digest(["rewrap-arr", cls.__name__, done, before[0]]))
    ctx.call("construct", a.construct, {vs[0].id: 1})
    ctx.call("boolean_variable_indices", lambda: a.boolean_variable_indices)
    if cls is pnd.boolean_ndarray:
        ctx.call("to_list", a.to_list)


UDTYPES = {"int8": numpy.int8, "int16": numpy.int16, "uint8": numpy.uint8, "uint16": numpy.uint16, "uint32": numpy.uint32, "uint64": numpy.uint64}
DTYPES = {"int": int, "int32": numpy.int32, "int64": numpy.int64, "float": float, "float32": numpy.float32}


def run_case(case, ctx):
    rng = random.Random(case["seed"])
    def mkvar(v):
        if v[3] == "int":
            return puan.variable(v[0], dtype="int")
        if v[3] == "int01":
            return puan.variable(v[0], bounds=(0, 1), dtype="int")
        return puan.variable(v[0], bounds=puan.Bounds(v[1], v[2]), dtype="bool")
    vs = [mkvar(v) if len(v) > 3 else (ItemVar if rng.random() < 0.1 else puan.variable)(v[0], bounds=(v[1], v[2])) for v in case["vars"]]
    kind = case["kind"]
    nonstr = kind == "construct" and rng.random() < 0.25
    if nonstr:
        # ids need not be strings (the library's own default column ids are integers): an id is matched as the dictionary matches keys, so "1" is not 1
        for z in rng.sample([0, 1, 2, 7, -1, (1, 2)], rng.randint(1, 3)):
            vs.insert(rng.randint(0, len(vs)), puan.variable(z, bounds=rng.choice([(0, 1), (-3, 3), (2, 5)])))
        ctx.count("count:construct:non-string-ids")
    ids = [v.id for v in vs]
    if kind == "rewrap":
        return run_rewrap(case, ctx, rng, vs)
    if kind in ("construct", "indices"):
        arr_cls = rng.choice([pnd.variable_ndarray, pnd.integer_ndarray, pnd.boolean_ndarray])
        arr = arr_cls(numpy.zeros((rng.randint(1, 2), len(vs)), dtype=numpy.int64), variables=vs)
        if kind == "indices":
            ctx.call("boolean_variable_indices", lambda: arr.boolean_variable_indices)
            ctx.call("integer_variable_indices", lambda: arr.integer_variable_indices)
            # hostile twin: same ids in the same order, bounds with the same lower+upper sum (equal under the library's hash)
            tw = []
            for v in vs:
                lo, hi = v.bounds.as_tuple()
                if (lo, hi) == (0, 1):
                    tw.append(puan.variable(v.id, bounds=rng.choice([(-2, 3), (-3, 4), (0, 1)])))
                elif lo + hi == 1:
                    tw.append(puan.variable(v.id, bounds=(0, 1)))
                else:
                    tw.append(puan.variable(v.id, bounds=(lo - 1, hi + 1) if rng.random() < 0.5 else (lo, hi)))
            arr2 = arr_cls(numpy.zeros((1, len(tw)), dtype=numpy.int64), variables=tw)
            ctx.count("count:index-twins")
            ctx.call("boolean_variable_indices", lambda: arr2.boolean_variable_indices)
            ctx.call("integer_variable_indices", lambda: arr2.integer_variable_indices)
            return
        named = rng.sample(ids, rng.randint(0, len(ids)))
        vv = {i: rng.randint(-9, 9) for i in named}
        if rng.random() < 0.4:
            vv["unknown-id"] = 5
        if nonstr:
            for z in ids:
                if not isinstance(z, str) and str(z) not in vv and rng.random() < 0.6:
                    vv[str(z)] = rng.randint(-9, 9)        # the text form of a non-string id: another id (a column of its own, or unknown)
                    if z in vv and rng.random() < 0.5:
                        del vv[z]
        dname = rng.choice(list(DTYPES))
        kw = {}
        if rng.random() < 0.2:
            # narrow / unsigned integer dtypes are integer dtypes too; only where every entry the statement asks for fits
            dname = rng.choice(list(UDTYPES))
            info = numpy.iinfo(UDTYPES[dname])
            vv = {k: abs(v) if info.min == 0 else v for k, v in vv.items()}
            if not all(info.min <= int(v.bounds.lower) <= info.max for v in vs) or not all(info.min <= x <= info.max for x in vv.values()):
                dname = "int64"
        r = rng.random()
        if r < 0.3:
            kw["default_value"] = (lambda v: 7) if dname in UDTYPES else rng.choice([lambda v: 7, lambda v: v.bounds.upper, lambda v: -1])
        if dname != "int64" or rng.random() < 0.5:
            kw["dtype"] = dict(DTYPES, **UDTYPES)[dname]
        if dname in ("float", "float32") and vv and rng.random() < 0.5:
            # fractional given values next to defaults of another kind (ints or booleans returned by the callable): a given value is taken as given
            vv = {k: (v + rng.choice([0.5, 0.25, -0.5]) if k != "unknown-id" else v) for k, v in vv.items()}
            if rng.random() < 0.7:
                kw["default_value"] = rng.choice([lambda v: 7, lambda v: v.bounds.upper, lambda v: True, lambda v: v.bounds.lower > 0])
            ctx.count("count:construct:fractional-values")
        elif "default_value" in kw and rng.random() < 0.2 and dname not in UDTYPES:
            kw["default_value"] = rng.choice([lambda v: True, lambda v: False])      # booleans as defaults next to integer given values
        if rng.random() < 0.15 and all(isinstance(v_, int) for v_ in vv.values()):
            # other mapping types a caller may hold the values in (they are dicts): ids that are not keys get the default
            import collections
            vv = rng.choice([collections.Counter, lambda d_: collections.defaultdict(int, d_), collections.OrderedDict])(vv)
            ctx.count("count:construct:dict-subclass")
        ctx.call("construct", arr.construct, vv, **kw)
    elif kind in ("ifrom", "bfrom"):
        ctxt = ids
        pool = ids + ["nope", "zz"]
        if rng.random() < 0.25:
            ctxt = [0] + [i for i in ids if i != "0"]           # [v.id for v in polyhedron.variables]: int 0 first, then str ids
            pool = ctxt + ["0", "nope", 1]
            ctx.count("count:mixed-type-context")
        def flat():
            k = rng.randint(1, len(pool))
            out = rng.sample(pool, k)
            if rng.random() < 0.25:
                out.insert(rng.randint(0, len(out)), rng.choice(out))        # an id listed twice is still just listed
                ctx.count("count:from_list:repeated-id")
            return out
        lst = flat() if rng.random() < 0.5 else [flat() for _ in range(rng.randint(1, 3))]
        ctxt = list(ctxt)
        side = rng.random()
        asvar = lambda z: puan.variable(z, bounds=rng.choice([(0, 1), (0, 1), (-2, 3)]))
        if side < 0.15:
            # variables on one side, raw ids on the other (the list that to_list() hands out, fed back with the ids as context, and vice versa)
            lst = [[asvar(z) for z in l] for l in lst] if isinstance(lst[0], list) else [asvar(z) for z in lst]
            ctx.count("count:from_list:variables-vs-raw-ids")
        elif side < 0.3:
            ctxt = [asvar(z) for z in ctxt]
            ctx.count("count:from_list:variables-vs-raw-ids")
        elif side < 0.42:
            # variables on both sides, the listed ones written without (or with other) bounds than the declared columns: a variable stands for its id
            ctxt = [puan.variable(z, bounds=rng.choice([(0, 5), (-2, 3), (0, 1)])) for z in ctxt]
            lst = [[puan.variable(z) for z in l] for l in lst] if isinstance(lst[0], list) else [puan.variable(z) for z in lst]
            ctx.count("count:from_list:variables-on-both-sides")
        if kind == "ifrom":
            ctx.call("integer.from_list", pnd.integer_ndarray.from_list, lst, list(ctxt))
        else:
            if rng.random() < 0.2 and isinstance(lst[0], list):
                lst = [tuple(l) for l in lst]
            ctx.call("boolean.from_list", pnd.boolean_ndarray.from_list, lst, list(ctxt))
    elif kind == "to_list":
        if rng.random() < 0.5:
            a = pnd.boolean_ndarray(numpy.array([[rng.randint(0, 1) for _ in vs]], dtype=numpy.int64), variables=vs)[0]
        else:
            a = pnd.boolean_ndarray(numpy.array([[rng.randint(0, 1) for _ in vs] for _ in range(rng.randint(1, 3))], dtype=numpy.int64), variables=vs)
        ctx.call("to_list", a.to_list)
    else:
        P = polygen.build_poly(case["poly"])
        ctx.call("A", lambda: P.A)
        ctx.call("b", lambda: P.b)
        ctx.call("to_linalg", P.to_linalg)
