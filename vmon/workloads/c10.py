"""C10 Validation accepts exactly the well-defined models.

Monitor: post-condition on the real AtLeast.errors. Oracle: the harness's own walk over the *object graph*
(children lists; never flatten(), which de-duplicates with the very hash/eq under test):
  errors()==[]  =>  acyclic id graph, no node lists a child id twice, one definition per id
  tree with pairwise distinct ids, or a model that merely shares identical sub-propositions  =>  errors()==[]
Workloads: (a) ill-defined by construction, one class per defect; (b) trees with pairwise distinct ids;
(c) DAG sharing by identity and by equal copy (also the same definition reached through different classes).
"""
import random
import zlib

import puan
import puan.logic.plog as pg

from .. import adapters, monitor, recipes, refmodel
from . import common

PROP = "C10"
RULE = ("cases: (a) ill-defined models by construction: self reference, cycles of length 2-4 through reference leaves, "
        "duplicate child, same leaf id with different bounds (incl. bounds that collide under the library's hash: (0,3)/(1,2), "
        "(-1,k)/(-2,k)), same compound id with different sign / value / children (incl. children that differ only by hash-twin "
        "leaf bounds), leaf vs compound with the same id and different bounds; (b) trees with pairwise distinct ids; (c) sharing "
        "by identity, by equal copy and by equal definition through another class (Any(a,b) next to Xor(a,b)). non-trivial: every "
        "case is; distinct by (class, canonical shape digest)"
        ' Classes added after the seeded rounds: sub-proposition next to a leaf with the same id, generated-id collisions, cross-branch cycles, same id and same child ids with differences one level further down.')
BUDGET = {"quick": (12, 1500, 90), "thorough": (16, 4000, 1200)}
ILL = ["self-ref", "cycle", "cycle-cross-branch", "deep-ambivalence", "compound-sign-symmetric", "dup-child-by-negation", "dup-child", "dup-child-ref-leaf", "generated-id-collision", "compound-value-twin", "leaf-bounds", "leaf-bounds-twin", "compound-sign", "compound-value",
       "compound-children", "compound-children-twin", "leaf-vs-compound", "compound-bounds", "compound-compound-child", "cc-default-vs-plain", "childless-vs-other"]
PYTEST = True     # thorough tier also runs the repository's own tests under these monitors
MANDATORY = ["judged:accepted=>well-defined", "judged:tree=>accepted", "judged:sharing=>accepted", "contract:AtLeast.errors"] + \
            ["count:ill:" + c for c in ILL] + ["count:ill-rejected", "count:class:tree", "count:class:share-identity",
                                               "count:class:share-copy", "count:class:share-other-class", "count:class:share-negated-copy", "count:class:edit-after-validation", "count:result-list-edited-then-validated-again"]


def is_tree(model):
    """every object visited once and all ids pairwise distinct"""
    ids, objs = set(), set()
    stack = [model]
    while stack:
        n = stack.pop()
        if id(n) in objs or n.id in ids:
            return False
        objs.add(id(n))
        ids.add(n.id)
        if not adapters.is_leaf(n):
            stack.extend(n.propositions)
    return True


def has_cycle_objects(model, limit=4000):
    """object-level cycle check that terminates on cyclic object graphs"""
    seen_path = set()
    count = [0]

    def walk(n):
        count[0] += 1
        if count[0] > limit:
            return True
        if adapters.is_leaf(n):
            return False
        if id(n) in seen_path:
            return True
        seen_path.add(id(n))
        try:
            return any(walk(c) for c in n.propositions)
        finally:
            seen_path.discard(id(n))
    return walk(model)


def errors_post(pre, args, kwargs, result):
    ctx = monitor.CTX
    self = args[0]
    if has_cycle_objects(self):
        raise monitor.OutOfScope()
    ok, reasons, graph, top, info = adapters.well_defined(self)
    accepted = (list(result) == [])
    facts = {"reasons": reasons, "class": (ctx.case or {}).get("class")}
    if accepted:
        ctx.check(ok, "accepted=>well-defined", lambda: {"model": adapters.model_text(self), "walk_says": reasons,
                                                        "ambivalent_ids": info["ambivalent"], "dup_child": info["dup_child"]}, facts)
    else:
        ctx.judged("accepted=>well-defined")
        if not ok:
            ctx.count("count:ill-rejected")
    if is_tree(self):
        ctx.check(accepted, "tree=>accepted", lambda: {"model": adapters.model_text(self), "errors": [str(e) for e in result]}, facts)
    elif ok and not info["ref_leaf"]:
        ctx.check(accepted, "sharing=>accepted", lambda: {"model": adapters.model_text(self), "errors": [str(e) for e in result]}, facts)
    elif ok:
        ctx.count("reference-leaf-idiom(not judged for acceptance)")
    cls = (ctx.case or {}).get("class", "observed")
    try:
        ctx.nt((cls, refmodel.shape_digest(graph, top)))
    except Exception:
        ctx.nt((cls, adapters.model_text(self)))
    ctx.sample({"class": cls, "model": adapters.model_text(self), "errors": [str(e) for e in result], "walk": reasons})
    return True


def install(ctx):
    monitor.attach(pg.AtLeast, "errors", errors_post, None)


# ------------------------------------------------------------------------------------------- generators
def V(i, b=(0, 1)):
    return {"k": "var", "id": i, "b": list(b)}


def gen_ill(rng, cls):
    """returns a recipe-ish description built by build_ill"""
    return {"class": cls, "seed": rng.getrandbits(32)}


def build_ill(cls, rng):
    tw = rng.choice(recipes.TWINS)
    k = rng.randint(2, 6)
    twin2 = ((-1, k), (-2, k))
    if cls == "self-ref":
        r = rng.random()
        if r < 0.3:
            return pg.All(puan.variable("A"), "x", variable="A")
        if r < 0.55:
            return pg.Any(pg.All("A", "y", variable="B"), "x", variable="A")
        # the self reference sits below the root, next to unrelated (well-defined) sub-propositions with leaves of their own
        extra = [pg.Any("x", "y"), pg.All("u1", "u2", "u3"), pg.AtMost(1, ["v1", "v2"]), pg.Any("w")]
        sibs = rng.sample(extra, rng.randint(1, 3))
        bad = rng.choice([lambda: pg.All("B", "z", variable="B"), lambda: pg.Any(pg.All("B", "q", variable="C"), "z", variable="B")])()
        return pg.All(*sibs, bad, variable="A")
    if cls == "cycle":
        n = rng.randint(2, 4)
        names = ["N%d" % i for i in range(n)]
        inner = pg.Any(names[0], "x", variable=names[-1])      # last node refers back to the first through a leaf
        for i in range(n - 2, -1, -1):
            inner = rng.choice([pg.All, pg.Any])(inner, "y%d" % i, variable=names[i])
        r = rng.random()
        if r < 0.4:
            return inner
        if r < 0.7:
            return pg.All(inner, "z", variable="TOP")
        # the cycle does not pass through the root and has unrelated siblings with leaves of their own
        return pg.All(inner, pg.Any("u1", "u2", "u3"), pg.All("v1", "v2"), "z", variable="TOP")
    if cls == "dup-child":
        r = rng.random()
        extra = rng.sample(["y", "z", "w"], rng.randint(0, 2))          # the duplicate may be the only thing a node lists
        if r < 0.4:
            return pg.AtLeast(1, [puan.variable("x"), puan.variable("x")] + extra, variable="A")
        if r < 0.7:
            c = pg.Any("a", "b", variable="C")
            return pg.AtLeast(1, [c, c] + extra, variable="A")
        return pg.All(pg.AtLeast(2, ["p", "p"] + extra, variable="B"), "v", variable="A")
    if cls == "cycle-cross-branch":
        # the cycle closes between siblings (no node refers to one of its own ancestors)
        n = rng.randint(2, 4)
        names = ["B%d" % i for i in range(n)]
        nodes = [rng.choice([pg.Any, pg.All])("v%d" % i, names[(i + 1) % n], variable=names[i]) for i in range(n)]
        top = pg.All(*nodes, variable="R") if rng.random() < 0.6 else pg.Any(pg.All(*nodes[:n // 2 + 1], variable="L"), pg.All(*nodes[n // 2 + 1:], "w", variable="M"), variable="R")
        return top
    if cls == "deep-ambivalence":
        # two sub-propositions with the same id AND the same (sign, value, child ids) under different parents; they differ one level further down
        r = rng.random()
        b1, b2 = rng.choice([((0, 1), (-3, 3)), ((0, 3), (1, 2)), ((0, 1), (0, 2))])
        if r < 0.35:
            mk = lambda b: pg.All(puan.variable("x", b), "y", variable="B")
        elif r < 0.7:
            mk = lambda b: pg.Any(pg.All("a", "b" if b == b1 else "c", variable="C"), "y", variable="B")
        else:
            mk = lambda b: pg.Any(pg.Any(puan.variable("x", b), "y"), "p")          # no explicit id anywhere
        return pg.All(pg.All(mk(b1), "p1", variable="P"), pg.All(mk(b2), "q1", variable="Q"), variable="M")
    if cls == "compound-sign-symmetric":
        # same id, bounds, value and children, opposite signs; the children's total range is symmetric around 0, so the two
        # definitions cannot be told apart by their equation bounds
        ch = rng.choice([lambda: [puan.variable("t", (-2, 2))], lambda: [puan.variable("t", (-1, 1)), puan.variable("u", (-3, 3))],
                         lambda: [puan.variable("t", (-2, 0)), puan.variable("u", (0, 2))], lambda: [puan.variable("t", (0, 0))]])
        v = rng.choice([1, -1, 0])
        return pg.All(pg.Any(pg.AtLeast(v, ch(), variable="S", sign=1), "p", variable="B"),
                      pg.Any(pg.AtLeast(v, ch(), variable="S", sign=-1), "q", variable="C"), variable="A")
    if cls == "dup-child-by-negation":
        # negation moved inwards gives the node two children with the same (generated) id that are not neighbours
        inner = pg.Any(pg.Any("a", "x"), pg.Any("b", "c"), "a", "x")
        n = pg.Not(inner)
        return rng.choice([lambda: n, lambda: pg.Imply(inner, "z"), lambda: pg.All(n, "w", variable="T")])()
    if cls == "dup-child-ref-leaf":
        # a node lists a sub-proposition and a leaf carrying the same id (and bounds) side by side
        r = rng.random()
        inner = rng.choice([lambda: pg.Any("x", "y", variable="B"), lambda: pg.All("x", variable="B"), lambda: pg.AtMost(1, ["x", "y"], variable="B")])
        if r < 0.3:
            return pg.All(inner(), "B", variable="A")
        if r < 0.5:
            return pg.All("B", inner(), variable="A")
        if r < 0.7:
            return pg.All(puan.variable("B"), inner(), "z", variable="A")
        if r < 0.85:
            return pg.Any(pg.All(inner(), puan.variable("B"), "q", variable="C"), "p", variable="A")
        return pg.All(pg.Any("x", "y", variable=puan.variable("B", (1, 1))), puan.variable("B", (1, 1)), variable="A")
    if cls == "generated-id-collision":
        # generated ids are a digest of the concatenated child ids + value + sign: different definitions can collide
        pair = rng.choice([
            (lambda: pg.Any("ab", "c"), lambda: pg.Any("a", "bc")),
            (lambda: pg.All("ab", "c"), lambda: pg.All("a", "bc")),
            (lambda: pg.Any("a", "b1"), lambda: pg.AtLeast(11, ["a", "b"])),
            (lambda: pg.AtLeast(1, ["x1"], sign=1), lambda: pg.AtLeast(11, ["x"], sign=1)),
            (lambda: pg.AtLeast(2, ["p", "q", "rs"]), lambda: pg.AtLeast(2, ["p", "qr", "s"])),
        ])
        return pg.All(pg.All(pair[0](), "p0", variable="P"), pg.All(pair[1](), "q0", variable="Q"), variable="M")
    if cls == "compound-value-twin":
        # hash(-1) == hash(-2)
        return pg.All(pg.Any(pg.AtLeast(-1, ["x", "y", "z"], variable="S", sign=-1), "p", variable="B"),
                      pg.Any(pg.AtLeast(-2, ["x", "y", "z"], variable="S", sign=-1), "q", variable="C"), variable="A")
    if cls == "leaf-bounds":
        b1, b2 = rng.choice([((0, 1), (0, 2)), ((0, 5), (1, 5)), ((-3, 3), (0, 1)), ((2, 2), (0, 1))])
        return pg.All(pg.Any(puan.variable("x", b1), "y", variable="B"), pg.Any(puan.variable("x", b2), "z", variable="C"), variable="A")
    if cls == "leaf-bounds-twin":
        b1, b2 = rng.choice([tw, twin2])
        if rng.random() < 0.5:
            return pg.All(pg.Any(puan.variable("x", b1), "y", variable="B"), pg.Any(puan.variable("x", b2), "z", variable="C"), variable="A")
        return pg.All(pg.AtLeast(2, [puan.variable("x", b1), "y"], variable="B"), pg.All(pg.AtLeast(1, [puan.variable("x", b2), "w"], variable="D"), "z", variable="C"), variable="A")
    if cls == "compound-sign":
        return pg.All(pg.Any(pg.AtLeast(1, ["x", "y"], variable="S", sign=1), "p", variable="B"),
                      pg.Any(pg.AtLeast(1, ["x", "y"], variable="S", sign=-1), "q", variable="C"), variable="A")
    if cls == "compound-value":
        v1, v2 = rng.sample([1, 2, 3, -1], 2)
        return pg.All(pg.Any(pg.AtLeast(v1, ["x", "y", "z"], variable="S", sign=1), "p", variable="B"),
                      pg.Any(pg.AtLeast(v2, ["x", "y", "z"], variable="S", sign=1), "q", variable="C"), variable="A")
    if cls == "compound-children":
        return pg.All(pg.Any(pg.AtLeast(1, ["x", "y"], variable="S"), "p", variable="B"),
                      pg.Any(pg.AtLeast(1, ["x", rng.choice(["w", "p"])], variable="S"), "q", variable="C"), variable="A")
    if cls == "compound-children-twin":
        b1, b2 = rng.choice([tw, twin2])
        return pg.All(pg.Any(pg.AtLeast(1, [puan.variable("x", b1), "y"], variable="S"), "p", variable="B"),
                      pg.Any(pg.AtLeast(1, [puan.variable("x", b2), "y"], variable="S"), "q", variable="C"), variable="A")
    if cls == "compound-bounds":
        # same id, sign, value and children on two non-sibling sub-propositions whose own variables carry different bounds
        b1, b2 = rng.choice([((0, 1), (1, 1)), ((0, 1), (0, 0)), ((1, 1), (0, 0)), ((1, 1), (0, 1))])
        mk = rng.choice([lambda b: pg.All("a", "b", variable=puan.variable("S", b)), lambda b: pg.AtMost(1, ["a", "b"], variable=puan.variable("S", b)),
                         lambda b: pg.Any(pg.All("a", "b"), "c", variable=puan.variable("S", b))])
        return pg.All(pg.Any(mk(b1), "p", variable="B"), pg.Any(mk(b2), "q", variable="C"), variable="A")
    if cls == "compound-compound-child":
        # same id, bounds, sign, value and leaf children; the two definitions differ only in a sub-proposition they hold
        other = rng.choice([lambda: pg.All("x", "y", variable="D"), lambda: pg.Any("x", "y", variable="C2"), lambda: pg.All("x", "z", variable="D")])
        mk = lambda inner: rng.choice([pg.All, pg.Any])("a", inner, variable="S")
        k = rng.choice([pg.All, pg.Any])
        return pg.All(pg.Any(k("a", pg.All("x", "y", variable="C1"), variable="S"), "p", variable="B"), pg.Any(k("a", other(), variable="S"), "q", variable="C"), variable="A")
    if cls == "cc-default-vs-plain":
        # an option group with a default is stored as Any(default, Any(rest)); a plain proposition with the same id over the unsplit members is another definition
        import puan.modules.configurator as ccm
        mem = rng.sample(["a", "b", "c", "d"], rng.randint(3, 4))
        d = rng.choice(mem)
        if rng.random() < 0.5:
            grp, plain = ccm.Any(*mem, default=[d], variable="X"), pg.Any(*mem, variable="X")
        else:
            grp = ccm.Xor(*mem, default=[d], variable="X")          # its at-least-one half keeps the generated id of Any(*mem)
            plain = pg.Any(*mem)
        return pg.All(pg.Any(grp, "p", variable="B"), pg.Any(plain, "q", variable="C"), variable="A")
    if cls == "childless-vs-other":
        # a sub-proposition without sub-propositions of its own is a compound one all the same: another definition of its id elsewhere is ambivalent
        first = rng.choice([lambda: pg.AtLeast(0, [], variable="S"), lambda: pg.All(variable="S"), lambda: pg.Any(variable="S"), lambda: pg.AtMost(0, [], variable="S")])()
        cands = [lambda: puan.variable("S", rng.choice([(0, 5), (1, 1), (-1, 1)])), lambda: pg.Any("x", "y", variable="S"), lambda: pg.AtLeast(3, ["x", "y", "z"], variable="S")]
        if (int(first.sign), int(first.value)) != (1, 1):
            cands.append(lambda: pg.AtLeast(1, [], variable="S"))
        if (int(first.sign), int(first.value)) != (-1, 0):
            cands.append(lambda: pg.AtLeast(0, [], variable="S"))
        other = rng.choice(cands)()
        pair = [pg.Any(first, "p", variable="B"), pg.Any(other, "q", variable="C")]
        rng.shuffle(pair)
        return pg.All(*pair, *rng.sample([pg.Any("u", "v"), puan.variable("w"), pg.All("r1", "r2", variable="R")], rng.randint(0, 2)), variable="A")
    if cls == "leaf-vs-compound":
        b = rng.choice([(0, 3), (1, 1), (-1, 1), (0, 0)])
        return pg.All(pg.Any("x", "y", variable="S"), pg.Any(puan.variable("S", b), "q", variable="C"), variable="A")
    raise KeyError(cls)


def gen_case(rng, tier, ctx, i):
    r = rng.random()
    if r < 0.4:
        return gen_ill(rng, ILL[i % len(ILL)] if rng.random() < 0.7 else rng.choice(ILL))
    if r < 0.6:
        # (b) tree with pairwise distinct ids: no sharing, no copies, leaves used once
        o = common.varied_opts(rng, tier, p_share=0, p_copy=0, p_str=0.1)
        rec = common.model_case(rng, tier, o)
        if rec is None:
            return None
        k = 0
        for n in refmodel.recipe_nodes(rec):      # every leaf occurrence gets its own id
            if n["k"] in ("var", "str"):
                n["id"] = "t%d" % k
                k += 1
        return {"class": "tree?", "recipe": rec}
    if r < 0.8:
        o = common.varied_opts(rng, tier, p_share=0.3, p_copy=0.2)
        rec = common.model_case(rng, tier, o)
        return None if rec is None else {"class": "share?", "recipe": rec}
    return {"class": rng.choice(["share-other-class", "share-other-class", "share-negated-copy", "edit-after-validation"]), "seed": rng.getrandbits(32)}


def validate_twice(ctx, m, seed):
    """the list that errors() hands out is the caller's: whatever the caller does with it (emptying it while working through it, collecting
    the findings of other models in it), the next validation of the model is again about the model"""
    got = ctx.call("errors", m.errors)
    if seed % 3 == 0 and isinstance(got, list):
        if got:
            while got:
                got.pop()
        else:
            got += ["finding about another model"]
        ctx.count("count:result-list-edited-then-validated-again")
        ctx.call("errors", m.errors)


def run_case(case, ctx):
    cls = case["class"]
    if cls in ILL:
        m = build_ill(cls, random.Random(case["seed"]))
        ctx.count("count:ill:" + cls)
        validate_twice(ctx, m, case["seed"])
        return
    if cls == "edit-after-validation":
        # one object: validated, then changed in place at least one level below the root's own child list so that it is ill-defined,
        # then validated again (each answer is about the object as it is at that moment)
        rng = random.Random(case["seed"])
        x01 = lambda: puan.variable("x", (0, 1))
        m = pg.All(pg.Any(pg.Any(x01(), "y", variable="B"), "p", variable="P"), pg.Any(pg.All("a", "b", variable="C"), "q", variable="Q"), "a", variable="M")
        ctx.count("count:class:edit-after-validation")
        ctx.call("errors", m.errors)
        P = next(c for c in m.propositions if c.id == "P")
        Q = next(c for c in m.propositions if c.id == "Q")
        how = rng.choice(["leaf-other-bounds", "second-definition", "dup-child", "cycle"])
        if how == "leaf-other-bounds":
            next(c for c in P.propositions if c.id == "B").propositions.append(puan.variable("a", (0, 5)))       # 'a' is (0,1) elsewhere
        elif how == "second-definition":
            Q.propositions.append(pg.Any("a", "b", variable="C"))                                              # C is All(a,b) next to it
            Q.propositions.sort()
        elif how == "dup-child":
            B = next(c for c in P.propositions if c.id == "B")
            B.propositions.append(x01())
        else:
            next(c for c in Q.propositions if c.id == "C").propositions.append(puan.variable("M"))               # refers back to the root
        ctx.count("count:ill:edited-" + how)
        ctx.call("errors", m.errors)
        return
    if cls == "share-negated-copy":
        rng = random.Random(case["seed"])
        base = rng.choice([lambda: pg.Any(pg.All("a", "b"), pg.Any("c", "d"), "e"), lambda: pg.All(pg.Any("a", "b"), pg.Any("c", "d"), pg.Xor("e", "f")),
                           lambda: pg.AtLeast(2, [pg.Any("c", "d"), pg.All("a", "b"), pg.Any("e", "f")], variable="N")])()
        n1 = base.negate()
        copy_ = rng.choice([lambda: pg.AtLeast(n1.value, list(n1.propositions), variable=n1.variable, sign=n1.sign), lambda: n1.assume({})])()
        m = pg.All(pg.Any(n1, "p", variable="B"), pg.Any(copy_, "q", variable="C"), variable="A")
        ctx.count("count:class:share-negated-copy")
        ctx.call("errors", m.errors)
        return
    if cls == "share-other-class":
        rng = random.Random(case["seed"])
        ids = rng.sample(["a", "b", "c", "d"], rng.randint(1, 3))
        n = len(ids)
        same = rng.choice([
            lambda: (pg.Any(*ids), pg.Xor(*ids)),                               # Any(..) == the AtLeast(1,..) inside Xor
            lambda: (pg.AtLeast(1, ids), pg.Any(*ids)),
            lambda: (pg.All(*ids), pg.AtLeast(n, ids)),
            lambda: (pg.AtMost(1, ids), pg.Xor(*ids)),
        ])()
        m = pg.All(pg.Any(same[0], "p", variable="B"), pg.Any(same[1], "q", variable="C"), variable="A")
        ctx.count("count:class:share-other-class")
        ctx.call("errors", m.errors)
        return
    m = recipes.fresh(case["recipe"])
    if adapters.is_leaf(m):
        raise monitor.OutOfScope()
    if is_tree(m):
        ctx.count("count:class:tree")
    else:
        rec_nodes = refmodel.recipe_nodes(case["recipe"])
        if any(n["k"] == "ref" for n in rec_nodes):
            ctx.count("count:class:share-identity")
        else:
            ctx.count("count:class:share-copy")
    validate_twice(ctx, m, zlib.crc32(repr(case["recipe"]).encode()))
