"""C13 Priority compression yields strictly dominating weights.

Monitor: post-condition on the real integer_ndarray.ndint_compress (and the rebound module alias).
Oracle (Python big ints, direct definitions): with key(column) = (index of the last non-zero row, |value|):
 shadow: zero columns stay 0; sign = sign of that value; equal keys -> equal |w|; key order strictly reflected in |w|;
         every |w| > sum of |w'| over all columns with a strictly lower key         (judged only while the ideal
         allocation fits comfortably in 64 bits, decided with the harness's own big-int allocation)
 prio:   signed dense rank of the key;   rank: dense order-preserving ranking of the prio output
 first/last/min/max: first / last non-zero, smallest non-zero, largest entry along the axis.
"""
import random

import numpy
import puan.ndarray as pnd

from .. import monitor

PROP = "C13"
RULE = ("cases: 1-D (axis=None), 2-D on both axes, N-D flattened, 3-D batches with axis=0 (the configurator's use; result[b] must be "
        "the 2-D result of slice b); ties, negative entries, all-zero rows and columns, up to 60 distinct levels, values up to 1e6. "
        "non-trivial: >=2 distinct non-zero keys; distinct by digest of (method, axis, array)"
        ' Also: several compressions of one array object (the input must be unchanged), up to 63 levels judged (top weight < 2**63), neighbours above 2**53.')
BUDGET = {"quick": (12, 3000, 90), "thorough": (16, 8000, 1200)}
METHODS = ["shadow", "prio", "rank", "first", "last", "min", "max"]
PYTEST = True     # thorough tier also runs the repository's own tests under these monitors
MANDATORY = ["judged:" + m for m in METHODS] + ["judged:input-unchanged"] + ["count:ndim:1", "count:ndim:2:axis0", "count:ndim:2:axis1", "count:ndim:3:axis0",
                                                 "count:shadow:levels>=20", "count:shadow:out-of-64-bit-scope", "count:rank-or-prio:levels>=64"]


def keys2d(M):
    """M: list of rows (levels x columns) of Python ints -> per column (key, sign) or None"""
    out = []
    for j in range(len(M[0]) if M else 0):
        k = None
        for i in range(len(M) - 1, -1, -1):
            if M[i][j] != 0:
                k = ((i, abs(M[i][j])), 1 if M[i][j] > 0 else -1)
                break
        out.append(k)
    return out


def ideal_top(keys):
    """largest weight of the smallest dominating allocation (big ints): the result fits in 64 bits iff this does"""
    cnt = {}
    for k in keys:
        if k is not None:
            cnt[k[0]] = cnt.get(k[0], 0) + 1
    total, w = 0, 0
    for lv in sorted(cnt):
        w = total + 1
        total += w * cnt[lv]
    return w


def check_shadow(M, w):
    keys = keys2d(M)
    if len(w) != len(keys):
        return "length"
    for j, k in enumerate(keys):
        if k is None:
            if w[j] != 0:
                return f"zero column {j} got {w[j]}"
        elif w[j] == 0 or (w[j] > 0) != (k[1] > 0):
            return f"sign of column {j}: weight {w[j]}, entry sign {k[1]}"
    lv = {}
    for j, k in enumerate(keys):
        if k is not None:
            if k[0] in lv and lv[k[0]] != abs(w[j]):
                return f"equal priorities, different weights: {lv[k[0]]} vs {abs(w[j])}"
            lv[k[0]] = abs(w[j])
    order = sorted(lv)
    for a, b in zip(order, order[1:]):
        if not lv[a] < lv[b]:
            return f"order: key {a} weight {lv[a]} !< key {b} weight {lv[b]}"
    for k in order:
        lower = sum(abs(w[j]) for j, kk in enumerate(keys) if kk is not None and kk[0] < k)
        if not lv[k] > lower:
            return f"dominance: key {k} weight {lv[k]} <= sum of lower {lower}"
    return None


def ref_prio(M):
    keys = keys2d(M)
    distinct = sorted({k[0] for k in keys if k is not None})
    return [0 if k is None else (distinct.index(k[0]) + 1) * k[1] for k in keys]


def check_rank(M, got):
    p = ref_prio(M)
    if len(got) != len(p):
        return "length"
    for i in range(len(p)):
        for j in range(len(p)):
            if (p[i] < p[j]) != (got[i] < got[j]) or (p[i] == p[j]) != (got[i] == got[j]):
                return f"not order preserving w.r.t. prio {p}"
    vals = sorted(set(got))
    if vals and vals != list(range(vals[0], vals[0] + len(vals))):
        return f"not dense: {vals}"
    if all(v >= 0 for row in M for v in row) and list(got) != p:
        return f"non-negative input: rank {list(got)} != prio {p}"
    return None


def ref_simple(M, method):
    out = []
    for j in range(len(M[0])):
        col = [M[i][j] for i in range(len(M))]
        nz = [v for v in col if v != 0]
        if method == "first":
            out.append(nz[0] if nz else 0)
        elif method == "last":
            out.append(nz[-1] if nz else 0)
        elif method == "min":
            out.append(min(nz) if nz else 0)
        else:
            out.append(max(col))
    return out


def judge2d(ctx, M, got, method, wit):
    """M levels x columns (python ints), got: list of python ints"""
    if method in ("prio", "rank") and len({k[0] for k in keys2d(M) if k is not None}) >= 64:
        ctx.count("count:rank-or-prio:levels>=64")
    if method == "shadow":
        keys = keys2d(M)
        if ideal_top(keys) > 2 ** 63 - 1:
            ctx.count("count:shadow:out-of-64-bit-scope")
            return
        if len({k[0] for k in keys if k is not None}) >= 20:
            ctx.count("count:shadow:levels>=20")
        err = check_shadow(M, got)
    elif method == "prio":
        exp = ref_prio(M)
        err = None if list(got) == exp else f"expected {exp}"
    elif method == "rank":
        err = check_rank(M, got)
    else:
        exp = ref_simple(M, method)
        err = None if list(got) == exp else f"expected {exp}"
    ctx.check(err is None, method, lambda: dict(wit, levels_by_columns=M, got=list(got), error=err))
    if len({k[0] for k in keys2d(M) if k is not None}) >= 2:
        ctx.nt(monitor.digest([method, wit.get("axis"), wit.get("input")]))


def snap(args, kwargs):
    a = numpy.asarray(args[0])
    if a.dtype.kind not in "iu":
        return None
    return a.astype(object).tolist(), a.shape


def post(pre, args, kwargs, result):
    ctx = monitor.CTX
    if pre is None:
        raise monitor.OutOfScope()
    data, shape = pre
    method = args[1] if len(args) > 1 else kwargs.get("method", "min")
    axis = args[2] if len(args) > 2 else kwargs.get("axis", None)
    if method not in METHODS or 0 in shape:
        raise monitor.OutOfScope()
    res = numpy.asarray(result)
    wit = {"method": method, "axis": axis, "input": data}
    # the array that was compressed is still the array the caller passed (a compression that rewrites its input makes every
    # later compression of the same array answer for other priorities)
    now = numpy.asarray(args[0]).astype(object).tolist()
    ctx.check(now == data, "input-unchanged", lambda: dict(wit, input_after_call=now))
    flat = numpy.array(data, dtype=object).reshape(-1).tolist()
    if not isinstance(axis, int):
        ctx.count("count:ndim:%d" % len(shape) if len(shape) == 1 else "count:flattened-nd")
        if res.shape != (len(flat),):
            ctx.check(False, method, lambda: dict(wit, got_shape=list(res.shape)))
            return True
        judge2d(ctx, [flat], [int(v) for v in res.tolist()], method, wit)
    elif len(shape) == 2 and axis in (0, 1):
        ctx.count("count:ndim:2:axis%d" % axis)
        M = data if axis == 0 else [list(r) for r in zip(*data)]
        if res.shape != (len(M[0]),):
            ctx.check(False, method, lambda: dict(wit, got_shape=list(res.shape)))
            return True
        judge2d(ctx, M, [int(v) for v in res.tolist()], method, wit)
    elif len(shape) == 3 and axis == 0 and method not in ("min", "max"):
        ctx.count("count:ndim:3:axis0")
        if res.shape != (shape[0], shape[2]):
            ctx.check(False, method, lambda: dict(wit, got_shape=list(res.shape)))
            return True
        for bidx in range(shape[0]):
            judge2d(ctx, data[bidx], [int(v) for v in res[bidx].tolist()], method, dict(wit, batch=bidx))
    else:
        raise monitor.OutOfScope()
    ctx.sample({"method": method, "axis": axis, "input": data, "output": res.tolist()})
    return True


def install(ctx):
    monitor.attach(pnd.integer_ndarray, "ndint_compress", post, snap)
    monitor.rebind_alias(pnd, "ndint_compress", pnd.integer_ndarray, "ndint_compress")


VALSETS = [[0, 1, 2, 3], [-3, -2, -1, 0, 0, 1, 2, 3], [0, 0, 0, 5, -5, 100, -7], list(range(-20, 21)), [0, 1], [0, -1, -2],
           [0, 10 ** 6, -10 ** 6, 999999, 7],
           # neighbours above 2**53 (float64 cannot tell them apart) and near the int64 limit
           [0, 2 ** 53, 2 ** 53 + 1, 3, -(2 ** 53 + 2)], [0, 2 ** 60, 2 ** 60 + 1, -1, 10 ** 18 + 1, 10 ** 18 + 2], [2 ** 62, -(2 ** 62 + 1), 0, 1]]


def gen_case(rng, tier, ctx, i):
    r = rng.random()
    vals = rng.choice(VALSETS)
    if rng.random() < 0.02:
        # many priority levels with ties below them: the weights grow like 3**k and leave the range a double represents exactly while still fitting 64 bits
        nlev = rng.randint(30, 38)
        per = 2
        vals_ = []
        for lv in range(1, nlev + 1):
            vals_ += [lv * rng.choice([1, 1, -1])] * per
        rng.shuffle(vals_)
        ctx.count("count:many-levels-with-ties")
        if rng.random() < 0.5:
            return {"data": vals_, "method": "shadow", "axis": None, "via": "method"}
        return {"data": [vals_], "method": "shadow", "axis": 0, "via": "method"}
    if rng.random() < 0.012:
        # a batch of wide members (what a configurator with hundreds of variables hands over for several requests): a default row of -1/-2 and
        # a sparse signed request row per member; the members agree in their first and last columns and differ in the middle
        w = rng.randint(520, 640)
        base = [rng.choice([-1, -1, -1, -2]) for _ in range(w)]
        members = []
        for _ in range(rng.randint(2, 4)):
            req = [0] * w
            for j in rng.sample(range(5, w - 5), rng.randint(0, 6)):
                req[j] = rng.choice([-3, -2, -1, 1, 2, 3])
            members.append([list(base), req])
        ctx.count("count:wide-batch")
        return {"data": members, "method": "shadow", "axis": 0, "via": "method"}
    if r < 0.2:
        shape = [rng.randint(1, 9)]
        axis = None
    elif r < 0.65:
        shape = [rng.randint(1, 5), rng.randint(1, 7)]
        axis = rng.choice([0, 1, 0, 1, None])
    elif r < 0.85:
        shape = [rng.randint(1, 3), rng.randint(1, 3), rng.randint(1, 6)]
        axis = 0
    else:
        # many distinct levels: tall 2-D with a single non-zero per row, or 1-D with many distinct values
        n = rng.choice([rng.randint(20, 60), rng.randint(61, 70)])
        if rng.random() < 0.5:
            data = [[0] * n for _ in range(n)]
            for k in range(n):
                data[k][k] = rng.choice([1, -1, 2, 5])
            if rng.random() < 0.5:
                data[rng.randrange(n)][rng.randrange(n)] = 3
            return {"data": data, "method": "shadow", "axis": 0, "via": "method"}
        data = rng.sample(range(-40, 41), min(n, 70))
        meth = rng.choice(["shadow", "prio", "rank"])
        if meth != "shadow" and rng.random() < 0.6:
            # rankings are not subject to the 64-bit proviso: far more than 64 distinct levels
            k = rng.randint(64, 120)
            data = [v * rng.choice([1, 1, -1]) for v in rng.sample(range(1, 400), k)] + [0, 0]
            rng.shuffle(data)
            if rng.random() < 0.4:
                w = rng.randint(2, 4)
                data = [data[i::w][:len(data) // w] for i in range(w)]
                return {"data": data, "method": meth, "axis": rng.choice([0, 1]), "via": "method"}
        return {"data": data, "method": meth, "axis": None, "via": "method"}
    def fill(sh):
        if len(sh) == 1:
            return [rng.choice(vals) for _ in range(sh[0])]
        return [fill(sh[1:]) for _ in range(sh[0])]
    data = fill(shape)
    if len(shape) == 2 and rng.random() < 0.25:
        return {"data": data, "sequence": [(rng.choice(METHODS), rng.choice([0, 1])) for _ in range(3)], "method": None, "axis": None, "via": "method"}
    if rng.random() < 0.15 and len(shape) == 2:
        data[rng.randrange(shape[0])] = [0] * shape[1]
    return {"data": data, "method": rng.choice(METHODS), "axis": axis, "via": rng.choice(["method", "alias"])}


def run_case(case, ctx):
    a = pnd.integer_ndarray(numpy.array(case["data"], dtype=numpy.int64))
    if case.get("sequence"):
        # several compressions of ONE array object; every answer is judged against the data the array was built from
        data0 = numpy.array(case["data"], dtype=object).tolist()
        for method, axis in case["sequence"]:
            ctx.call("ndint_compress", a.ndint_compress, method=method, axis=axis)
            if numpy.asarray(a).astype(object).tolist() != data0:
                return
        return
    if case["via"] == "alias":
        ctx.call("ndint_compress", pnd.ndint_compress, a, method=case["method"], axis=case["axis"])
    else:
        ctx.call("ndint_compress", a.ndint_compress, method=case["method"], axis=case["axis"])
