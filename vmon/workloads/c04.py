"""C04 Connectives have their documented truth functions.

Runtime oracle: the boolean semantics of the *recipe* (an AST the harness wrote: conjunction, disjunction,
at-least-k, at-most-k, exactly-one, not-exactly-one, implication, negation) against the library's evaluate() of the
object built from it by three routes: the constructors, a JSON dictionary written by the harness and read by
plog.from_json, and rule dictionaries read by Imply.from_cicJE. All 2^n assignments (n <= 8) are judged.
Monitors: post-conditions on plog.from_json and Imply.from_cicJE count and judge every call.
"""
import itertools
import json
import random

import puan
import puan.logic.plog as pg

from .. import adapters, monitor, recipes, refmodel
from . import common

PROP = "C04"
RULE = ("cases: bounded-exhaustive sweep (all formulas with <=2 levels, arity<=3 over <=4 boolean leaves, every k in -1..n+1) "
        "interleaved with random ASTs to depth 4, each built via constructors / from_json / from_cicJE (five rule types x ALL/ANY x "
        "0-3 sub-conditions x optional ids); all 2^n assignments judged. non-trivial: AST depth>=2 or a negating connective "
        "(Not, Imply, XNor, AtMost, FORBIDS_ALL); distinct by AST digest and route"
        ' Also: sibling sub-formulas that collide on a generated id, AtLeast/AtMost arguments handed over as one-shot iterables, arity up to 6; well-formed formulas are judged even when errors() is non-empty (duplicate arguments excluded).')
BUDGET = {"quick": (12, 1800, 90), "thorough": (16, 5000, 1200)}
CONNECTIVES = ["All", "Any", "AtLeast", "AtMost", "Xor", "ExactlyOne", "XNor", "Imply", "Not"]
PYTEST = True     # thorough tier also runs the repository's own tests under these monitors
MANDATORY = ["judged:truth-table:ctor", "judged:truth-table:json", "judged:truth-table:cicJE", "contract:plog.from_json",
             "contract:Imply.from_cicJE"] + ["count:connective:" + c for c in CONNECTIVES] + \
            ["count:cicJE:" + r for r in ["REQUIRES_ALL", "REQUIRES_ANY", "ONE_OR_NONE", "FORBIDS_ALL", "REQUIRES_EXCLUSIVELY"]] + \
            ["count:judged-although-errors()-nonempty", "count:json:AtMost-value-0", "count:configurator-any-xor"]
NEGATING = {"Not", "Imply", "XNor", "AtMost"}
LEAVES = ["a", "b", "c", "d", "e", "f", "g", "h"]
COLLIDING = ["a", "b", "c", "ab", "bc", "abc", "1", "2", "12", "22", "a1", "1a"]


# ------------------------------------------------------------------------------------------- JSON route
def to_json_dict(r, rng):
    """the JSON form of a recipe, written by the harness from the documented format (the keys of an object come in any order)"""
    d = _to_json_dict(r, rng)
    if isinstance(d, dict) and rng.random() < 0.5:
        ks = list(d)
        rng.shuffle(ks)
        d = {k_: d[k_] for k_ in ks}
    return d


def _to_json_dict(r, rng):
    k = r["k"]
    if k in ("var", "str"):
        f = rng.random()
        if f < 0.4:
            return {"id": r["id"]}
        if f < 0.7:
            return {"type": rng.choice(["Variable", "Proposition"]), "id": r["id"]}
        return {"id": r["id"], "bounds": {"lower": 0, "upper": 1}}
    d = {}
    if r.get("id"):
        d["id"] = r["id"]
    if k == "Imply":
        d.update(type="Imply", condition=to_json_dict(r["args"][0], rng), consequence=to_json_dict(r["args"][1], rng))
        return d
    if k == "Not":
        return {"type": "Not", "proposition": to_json_dict(r["args"][0], rng)}
    d["propositions"] = [to_json_dict(a, rng) for a in r["args"]]
    if k == "AtLeast":
        if rng.random() < 0.5:
            d["type"] = "AtLeast"          # a missing type with `propositions` defaults to AtLeast
        if not (r["value"] == 1 and rng.random() < 0.5):
            d["value"] = r["value"]        # a missing value defaults to 1
    elif k == "AtMost":
        d.update(type="AtMost", value=r["value"])
        if r["value"] == 0 and monitor.CTX is not None:
            monitor.CTX.count("count:json:AtMost-value-0")
    else:
        d["type"] = k
    return d


def json_ok(r):
    """AtLeast with an explicit sign that differs from the inferred one has no JSON form in this route"""
    for n in refmodel.recipe_nodes(r):
        if n["k"] == "AtLeast" and n.get("sign") is not None and n["sign"] != (1 if n["value"] > 0 else -1):
            return False
        if n["k"] in ("ref", "neg", "ccAny", "ccXor"):
            return False
    return True


# ------------------------------------------------------------------------------------------- cicJE route
RULES = ["REQUIRES_ALL", "REQUIRES_ANY", "ONE_OR_NONE", "FORBIDS_ALL", "REQUIRES_EXCLUSIVELY"]


def gen_cicje(rng):
    pool = rng.sample(LEAVES, rng.randint(3, 6))
    comps = lambda n: [{"id": i} for i in rng.sample(pool, min(n, len(pool)))]
    rule = {"consequence": {"ruleType": rng.choice(RULES), "components": comps(rng.randint(1, 3))}}
    if rng.random() < 0.4:
        rule["consequence"]["id"] = "CQ"
    nsub = rng.choice([None, 0, 1, 1, 2, 3])
    if nsub is not None:
        cond = {"subConditions": []}
        if rng.random() < 0.7:
            cond["relation"] = rng.choice(["ALL", "ANY"])
        if rng.random() < 0.3:
            cond["id"] = "CD"
        for j in range(nsub):
            sc = {"components": comps(rng.randint(1, 3))}
            if rng.random() < 0.7:
                sc["relation"] = rng.choice(["ALL", "ANY"])
            if rng.random() < 0.3:
                sc["id"] = "S%d" % j
            cond["subConditions"].append(sc)
        rule["condition"] = cond
    if rng.random() < 0.4:
        rule["id"] = "R"
    return rule


def cicje_value(rule, x):
    """documented meaning of a rule dictionary"""
    cq = rule["consequence"]
    vals = [x[c["id"]] for c in cq["components"]]
    s = sum(vals)
    q = {"REQUIRES_ALL": s >= len(vals), "REQUIRES_ANY": s >= 1, "ONE_OR_NONE": s <= 1, "FORBIDS_ALL": s == 0,
         "REQUIRES_EXCLUSIVELY": s == 1}[cq["ruleType"]]
    subs = rule.get("condition", {}).get("subConditions", []) if "condition" in rule else []
    if not subs:
        return int(q)
    rel = lambda d, v: (all(v) if d.get("relation", "ALL") == "ALL" else any(v))
    inner = [rel(sc, [x[c["id"]] == 1 for c in sc["components"]]) for sc in subs]
    cond = inner[0] if len(inner) == 1 else rel(rule["condition"], inner)
    return int((not cond) or q)


def cicje_well_formed(rule):
    subs = rule.get("condition", {}).get("subConditions", []) if "condition" in rule else []
    keys = []
    for sc in subs:
        cs = [c["id"] for c in sc["components"]]
        if len(cs) != len(set(cs)) or not cs:
            return False
        keys.append((sc.get("relation", "ALL") if len(cs) > 1 else "one", frozenset(cs)))
    if len(keys) != len(set(keys)):
        return False
    cq = [c["id"] for c in rule["consequence"]["components"]]
    if len(cq) != len(set(cq)) or not cq:
        return False
    names = [d["id"] for d in [rule, rule["consequence"], rule.get("condition", {})] + subs if d.get("id")]
    return len(names) == len(set(names)) and not (set(names) & set(cicje_leaves(rule)))


def cicje_leaves(rule):
    ids = [c["id"] for c in rule["consequence"]["components"]]
    for sc in rule.get("condition", {}).get("subConditions", []):
        ids += [c["id"] for c in sc["components"]]
    return sorted(set(ids))


# ------------------------------------------------------------------------------------------- sweep
def sweep_formulas():
    """all formulas with <=2 levels, arity<=3, over <=4 leaves (deterministic order)"""
    L = LEAVES[:4]
    level1 = []
    for n in (1, 2, 3):
        for ids in itertools.combinations(L, n):
            args = [{"k": "var", "id": i, "b": [0, 1]} for i in ids]
            for k in ("All", "Any", "Xor", "XNor"):
                level1.append({"k": k, "id": None, "args": args})
            for v in range(-1, n + 2):
                level1.append({"k": "AtLeast", "id": None, "args": args, "value": v})
                level1.append({"k": "AtMost", "id": None, "args": args, "value": v})
    for f in level1:
        yield f
    for f in level1:
        yield {"k": "Not", "id": None, "args": [f]}
    rng = random.Random(12345)
    while True:   # level 2: pairs/triples of level-1 formulas and leaves under every connective
        k = rng.choice(["All", "Any", "Xor", "XNor", "AtLeast", "AtMost", "Imply", "Not"])
        n = 1 if k == "Not" else 2 if k == "Imply" else rng.randint(1, 3)
        args = []
        used = set()
        for _ in range(n):
            a = rng.choice(level1) if rng.random() < 0.7 else {"k": "var", "id": rng.choice(L), "b": [0, 1]}
            key = json.dumps(a, sort_keys=True)
            if key in used:
                continue
            used.add(key)
            args.append(a)
        if k == "Imply" and len(args) < 2:
            continue
        f = {"k": k, "id": None, "args": args}
        if k in ("AtLeast", "AtMost"):
            f["value"] = rng.randint(-1, len(args) + 1)
        yield f


_sweep = None


def next_sweep(i, shard_seed):
    global _sweep
    if _sweep is None:
        _sweep = sweep_formulas()
        # shards take disjoint slices of the deterministic enumeration
        for _ in range((shard_seed % 16) * 37):
            next(_sweep)
    return next(_sweep)


# ------------------------------------------------------------------------------------------- monitors
def fromjson_post(pre, args, kwargs, result):
    monitor.CTX.count("from_json:returned:" + type(result).__name__)
    return True


def cicje_snap(args, kwargs):
    data = args[0] if args else kwargs.get("data")
    if (len(args) > 1 or kwargs.get("cmp2prop") or kwargs.get("id_ident")) or not isinstance(data, dict):
        return None
    try:
        json.dumps(data)
        return json.loads(json.dumps(data))
    except Exception:
        return None


def cicje_post(pre, args, kwargs, result):
    ctx = monitor.CTX
    if pre is None:
        raise monitor.OutOfScope()
    rule = pre
    try:
        ids = cicje_leaves(rule)
        rt = rule["consequence"]["ruleType"]
    except Exception:
        raise monitor.OutOfScope()
    if len(ids) > 8 or adapters.is_leaf(result):
        raise monitor.OutOfScope()
    if adapters.validated(result) is None:
        # as for the constructors: a well formed rule dictionary (pairwise different sub-conditions, distinct components, unique ids)
        # must mean its truth function even if the object built from it does not pass errors()
        if not cicje_well_formed(rule):
            raise monitor.OutOfScope()
        ctx.count("count:cicJE:judged-although-errors()-nonempty")
    ctx.count("count:cicJE:" + rt)
    if judge_table(ctx, result, ids, lambda x: cicje_value(rule, x), "cicJE", {"rule": rule}):
        subs = rule.get("condition", {}).get("subConditions", []) if "condition" in rule else []
        if subs or rt in ("FORBIDS_ALL", "ONE_OR_NONE"):
            ctx.nt(("cicJE", rt, rule.get("condition", {}).get("relation"), tuple((sc.get("relation"), len(sc["components"])) for sc in subs),
                    len(rule["consequence"]["components"])))
    ctx.sample({"route": "cicJE", "rule": rule}, cap=6)
    return True


def judge_table(ctx, model, ids, sem, route, witness):
    bad = None
    n = 0
    for t in itertools.product((0, 1), repeat=len(ids)):
        x = dict(zip(ids, t))
        want = sem(x)
        got = common.const(model.evaluate(dict(x)))
        n += 1
        if got != want:
            bad = {"x": x, "expected": want, "got": got}
            break
    ctx.judged("truth-table:" + route, max(n - 1, 0))
    w = dict(witness)
    ctx.check(bad is None, "truth-table:" + route, lambda: dict(w, bad=bad, built=adapters.model_text(model)), {"route": route})
    return bad is None


def _structure(c, depth=0):
    if adapters.is_leaf(c) or depth > 40:
        return ("leaf", c.id, int(c.bounds.lower), int(c.bounds.upper))
    return (c.id, int(c.sign), int(c.value), int(c.bounds.lower), int(c.bounds.upper), tuple(sorted(repr(_structure(x, depth + 1)) for x in c.propositions)))


def same_argument_twice(rec):
    """every argument of every connective of the recipe built ON ITS OWN: two arguments of one connective that come out with the same id and the
    same structure all the way down are one argument written twice (a duplicate child: an ill-defined model by C10), however differently
    they were spelled (Xor / ExactlyOne, Not(threshold) / the negated threshold, ...). The object built from the whole recipe is not consulted:
    copies that the library itself makes inside one argument are its own doing and are judged."""
    for n in refmodel.recipe_nodes(rec):
        if n["k"] in ("var", "str", "ref", "neg") or len(n.get("args", [])) < 2:
            continue
        seen = set()
        for a in n["args"]:
            if a["k"] in ("var", "str"):
                continue
            try:
                st = repr(_structure(recipes.fresh(recipes.strip(a))))
            except Exception:      # noqa
                continue
            if st in seen:
                return True
            seen.add(st)
    return False


def ast_well_formed(rec):
    ids = [n["id"] for n in refmodel.recipe_nodes(rec) if n.get("id") and n["k"] not in ("var", "str")]
    if len(ids) != len(set(ids)):
        return False
    for n in refmodel.recipe_nodes(rec):
        if n["k"] in ("ref", "neg"):
            return False
        if n["k"] not in ("var", "str"):
            keys = [shape_key(a) for a in n["args"]]
            if len(keys) != len(set(keys)):
                return False          # the same argument written twice (possibly with its own arguments in another order)
    return True


def shape_key(a):
    """two arguments with the same key are the same formula for the library (same id): order-insensitive, and
    All/Any/AtLeast/AtMost are told apart only by (value, sign as passed)"""
    if a["k"] in ("var", "str"):
        return ("leaf", a["id"])
    if a.get("id"):
        return ("id", a["id"])
    args = list(a["args"])
    if a["k"] in ("Imply", "Not") and args and args[0]["k"] in ("var", "str"):
        args[0] = {"k": "All", "id": None, "args": [args[0]]}          # a bare condition / negated leaf is wrapped in All(leaf) by the library
    ch = tuple(sorted(map(repr, (shape_key(x) for x in args))))
    k = a["k"]
    if k == "ExactlyOne":
        k = "Xor"          # ExactlyOne is a subclass of Xor that builds the same proposition (same generated id)
    n = len(a["args"])
    sg = lambda v, s_: int(s_) if s_ is not None else (1 if v > 0 else -1)          # the sign the constructor derives when none is passed
    norm = {"All": ("AL", n, sg(n, None)), "Any": ("AL", 1, 1)}.get(k)
    if k == "AtLeast":
        norm = ("AL", a["value"], sg(a["value"], a.get("sign")))
    elif k == "AtMost":
        norm = ("AL", -a["value"], -1)
    if k == "Not" and args and not args[0].get("id") and all(x["k"] in ("var", "str") for x in args[0].get("args", [{"k": "x"}])):
        # the negation of a threshold over leaves only is again a threshold over the same leaves: not(s*sum >= v)  <=>  -s*sum >= 1-v
        inner = shape_key(args[0])
        if isinstance(inner[0], tuple) and inner[0][0] == "AL":
            return (("AL", 1 - inner[0][1], -inner[0][2]), inner[1])
    return (norm or k, ch)


def install(ctx):
    import sys
    monitor.attach(sys.modules["puan.logic.plog"], "from_json", fromjson_post, None, label="plog.from_json")
    monitor.attach(pg.Imply, "from_cicJE", cicje_post, cicje_snap, label="Imply.from_cicJE")


# ------------------------------------------------------------------------------------------- cases
def gen_case(rng, tier, ctx, i):
    r = rng.random()
    if rng.random() < 0.05:
        # an option group of the configurator (3-5 alternatives, usually with a default) negated / implied / nested: still exactly-one / disjunction
        from . import common
        ctx.count("count:configurator-any-xor")
        return {"route": "ctor", "recipe": common.cc_case(rng, boolean=True), "seed": rng.getrandbits(32)}
    if rng.random() < 0.04:
        # a connective over "at least one of P" and "at most one of P" (the two halves an exactly-one is made of) as its ordinary arguments
        P = [{"k": "var", "id": i, "b": [0, 1]} for i in rng.sample("abcde", rng.randint(2, 3))]
        cp = lambda: [dict(a) for a in P]
        lo = rng.choice([{"k": "Any", "id": None, "args": cp()}, {"k": "AtLeast", "id": None, "args": cp(), "value": 1}])
        hi = {"k": "AtMost", "id": None, "args": cp(), "value": 1}
        args = [lo, hi]
        rng.shuffle(args)
        top = rng.choice(["Xor", "ExactlyOne", "XNor", "Xor", "All", "Any", "Imply"])
        if top not in ("Imply",) and rng.random() < 0.3:
            args.append({"k": "var", "id": "q", "b": [0, 1]})
        rec = {"k": top, "id": rng.choice([None, "T"]), "args": args}
        if rng.random() < 0.3:
            rec = {"k": rng.choice(["Not", "All"]), "id": None, "args": [rec]}
        ctx.count("count:halves-of-exactly-one-as-arguments")
        return {"route": rng.choice(["ctor", "json", "both"]), "recipe": rec, "seed": rng.getrandbits(32)}
    if r < 0.25:
        return {"route": "cicJE", "rule": gen_cicje(rng)}
    if r < 0.33:
        # two different sub-formulas that receive the same generated id (their sorted child ids concatenate identically)
        # as arguments of one connective
        A, B = rng.choice([(["a", "bc"], ["ab", "c"]), (["1", "22"], ["12", "2"]), (["a", "b", "cd"], ["a", "bc", "d"]), (["x", "yz"], ["xy", "z"])])
        k = rng.choice(["Any", "All", "Xor", "AtLeast", "AtMost"])
        mk = lambda ids: dict({"k": k, "id": None, "args": [{"k": "var", "id": i, "b": [0, 1]} for i in ids]},
                              **({"value": v} if k in ("AtLeast", "AtMost") else {}))
        v = rng.randint(1, 2)
        top = rng.choice(["All", "Any", "Xor", "XNor", "AtLeast", "AtMost", "Imply"])
        args = [mk(A), mk(B)]
        if top != "Imply" and rng.random() < 0.4:
            args.append({"k": "var", "id": "q", "b": [0, 1]})
        rec = {"k": top, "id": rng.choice([None, "T"]), "args": args}
        if top in ("AtLeast", "AtMost"):
            rec["value"] = rng.randint(0, len(args))
        if rng.random() < 0.3:
            rec = {"k": rng.choice(["Not", "Any", "All"]), "id": None, "args": [rec] if rng.random() < 0.5 else [rec, {"k": "var", "id": "p", "b": [0, 1]}]}
            if rec["k"] == "Not":
                rec["args"] = rec["args"][:1]
    elif r < 0.6:
        rec = next_sweep(i, ctx.seed)
    else:
        o = recipes.Opts(depth=rng.choice([2, 3, 4]), maxfan=rng.choice([3, 3, 5, 6]), nleaf=rng.choice([3, 4, 6, 8]), p_int=0, p_share=0, p_copy=0.05,
                         p_explicit=0.4, odd_ids=0, p_subclass=0.12)
        pool = None
        if rng.random() < 0.3:
            # leaf ids whose concatenations coincide ('a'+'bc' == 'ab'+'c'): different sub-formulas then get the same generated id
            pool = [{"k": "var", "id": x, "b": [0, 1]} for x in rng.sample(COLLIDING, rng.randint(3, 6))]
            o.p_explicit = 0.15
            o.p_copy = 0
        rec = None
        for _ in range(8):
            r_ = recipes.gen_model(rng, o, pool=pool)
            if recipes.refs_resolvable(r_):
                rec = r_
                break
        if rec is None:
            return None
    rec = json.loads(json.dumps(recipes.strip(rec)))
    if rng.random() < 0.2:
        # the configurator's Any / Xor are disjunction / exactly-one too; a default (a leaf, or one of the compound arguments
        # named by its id) must not change the truth function
        for n in refmodel.recipe_nodes(rec):
            if n["k"] in ("Any", "Xor") and len(n["args"]) >= 2 and rng.random() < 0.6:
                n["k"] = "ccAny" if n["k"] == "Any" else "ccXor"
                cand = [a["id"] for a in n["args"] if a.get("id")]
                if cand and rng.random() < 0.8:
                    n["default"] = [rng.choice(cand)]
                    if len(cand) >= 3 and rng.random() < 0.25:
                        n["default"] = rng.sample(cand, 2)          # a list of defaults (only the first one is used for the priorities): still a disjunction / exactly-one of all
                ctx.count("count:configurator-any-xor")
    if rng.random() < 0.3:
        for n in refmodel.recipe_nodes(rec):
            if n["k"] in ("AtLeast", "AtMost") and rng.random() < 0.5:
                n["iter"] = rng.choice(["gen", "map", "tuple", "iter"])       # the arguments arrive in a one-shot iterable
            if n["k"] in ("All", "Any", "Xor", "ExactlyOne", "XNor") and rng.random() < 0.4:
                n["via"] = "from_list"
    return {"route": rng.choice(["ctor", "json", "both"]), "recipe": rec, "seed": rng.getrandbits(32)}


def run_case(case, ctx):
    if case["route"] == "cicJE":
        ctx.call("from_cicJE", pg.Imply.from_cicJE, json.loads(json.dumps(case["rule"])))
        return
    rec = case["recipe"]
    leaves = refmodel.recipe_leaves(rec)
    ids = sorted(leaves)
    if len(ids) > 8 or any(tuple(b) != (0, 1) for b in leaves.values()):
        raise monitor.OutOfScope()
    sem = lambda x: refmodel.recipe_value(rec, x)
    nodes = refmodel.recipe_nodes(rec)
    nt = len([n for n in nodes if n["k"] not in ("var", "str")]) >= 2 or any(n["k"] in NEGATING for n in nodes)
    rng = random.Random(case["seed"])
    routes = ["ctor", "json"] if case["route"] == "both" else [case["route"]]
    for route in routes:
        if route == "json":
            if not json_ok(rec):
                ctx.count("json-route-not-applicable")
                continue
            data = json.loads(json.dumps(to_json_dict(rec, rng)))
            m = ctx.call("from_json", pg.from_json, data)
            wit = {"recipe": rec, "json": data}
        else:
            m = ctx.call("constructors", recipes.fresh, rec)
            wit = {"recipe": rec}
        if adapters.is_leaf(m):
            ctx.count("not-validated:" + route)
            continue
        if adapters.validated(m) is None:
            # the statement does not ask for validation: a well formed formula (distinct arguments per connective, unique
            # explicit ids, no sharing) must evaluate like its truth function even if two sub-formulas collide on a generated id
            if not ast_well_formed(rec):
                ctx.count("not-validated:" + route)
                continue
            if same_argument_twice(rec):
                # two arguments of one connective that, each built on its own, are the same proposition (same id, same structure all the way down):
                # one argument written twice, however differently spelled; same id with DIFFERENT structures is a collision and is judged
                ctx.count("not-validated(same argument twice, as built):" + route)
                continue
            ctx.count("count:judged-although-errors()-nonempty")
        for n in nodes:
            if n["k"] in CONNECTIVES:
                ctx.count("count:connective:" + n["k"])
        if judge_table(ctx, m, ids, sem, route, wit) and nt:
            ctx.nt((route, refmodel.recipe_digest(rec)))
        ctx.sample({"route": route, "recipe": rec, "assignments": 2 ** len(ids)})
