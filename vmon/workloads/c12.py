"""C12 Bound tightening never cuts off a feasible point; row bounds are exact.

Monitors: post-conditions on the real ge_polyhedron.tighten_column_bounds, row_bounds, column_bounds and the
n_row_combinations property. Oracle: complete enumeration of the integer solution set (numpy meshgrid) and
min/max of every row in Python ints.
"""
import numpy
import puan.ndarray as pnd

from .. import monitor, refmodel
from . import polygen, c11

PROP = "C12"
RULE = ("cases: as C11, rows with |a|>1 (fractional divisions) over-represented; non-trivial: the system is feasible and "
        "tightening changed at least one bound, or the system is infeasible and lb>ub was reported; distinct by digest of (matrix, bounds)"
        ' Also: coefficients -130..130 and the magnitudes 49, 75, 77, 91, ... where reciprocal rounding differs, narrow dtypes, column 0 carrying a boolean variable; all four queries run on one instance, which must be unchanged afterwards.')
BUDGET = {"quick": (12, 1350, 90), "thorough": (16, 4000, 1200)}
PYTEST = True     # thorough tier also runs the repository's own tests under these monitors
MANDATORY = ["judged:tightened-contains-solutions", "judged:never-widens", "judged:lb>ub-only-when-infeasible",
             "judged:row_bounds-exact", "judged:column_bounds=declared", "judged:n_row_combinations",
             "count:tightened-something", "count:lb>ub-reported", "count:feasible", "count:infeasible"]


def tighten_post(pre, args, kwargs, result):
    ctx = monitor.CTX
    if pre is None:
        raise monitor.OutOfScope()
    T = numpy.asarray(result)
    n = pre["A"].shape[1]
    if T.shape != (2, n):
        ctx.check(False, "tightened-contains-solutions", lambda: c11.wit(pre, got_shape=list(T.shape)))
        return True
    lb = [int(v) for v in T[0]]
    ub = [int(v) for v in T[1]]
    decl = pre["bounds"]
    widened = [(j, lb[j], ub[j], decl[j]) for j in range(n) if lb[j] < decl[j][0] or ub[j] > decl[j][1]]
    ctx.check(not widened, "never-widens", lambda: c11.wit(pre, tightened=[lb, ub], widened=widened))
    S = c11.sols(pre)
    if S is None:
        ctx.count("out_of_scope:box-too-large")
        return True
    ctx.count("count:feasible" if len(S) else "count:infeasible")
    bad = None
    if len(S):
        smin, smax = S.min(axis=0), S.max(axis=0)
        for j in range(n):
            if smin[j] < lb[j] or smax[j] > ub[j]:
                col = S[:, j]
                k = int(numpy.argmax((col < lb[j]) | (col > ub[j])))
                bad = {"column": j, "tightened": [lb[j], ub[j]], "solution": S[k].tolist()}
                break
    ctx.check(bad is None, "tightened-contains-solutions", lambda: c11.wit(pre, tightened=[lb, ub], bad=bad))
    crossed = [j for j in range(n) if lb[j] > ub[j]]
    if crossed:
        ctx.count("count:lb>ub-reported")
    ctx.check(not (crossed and len(S)), "lb>ub-only-when-infeasible", lambda: c11.wit(pre, tightened=[lb, ub], crossed=crossed, a_solution=S[0].tolist()))
    changed = any((lb[j], ub[j]) != tuple(decl[j]) for j in range(n))
    if changed:
        ctx.count("count:tightened-something")
    if (len(S) and changed) or (not len(S) and crossed):
        ctx.nt(monitor.digest([pre["A"].tolist(), pre["b"].tolist(), pre["bounds"]]))
    ctx.sample(c11.wit(pre, tightened=[lb, ub], solutions=len(S)))
    return True


def row_bounds_post(pre, args, kwargs, result):
    ctx = monitor.CTX
    if pre is None:
        raise monitor.OutOfScope()
    R = numpy.asarray(result)
    want = refmodel.row_minmax(pre["A"], pre["b"], pre["bounds"])
    ok = R.shape == (len(want), 2) and [[int(a), int(b)] for a, b in R.tolist()] == [list(w) for w in want]
    ctx.check(ok, "row_bounds-exact", lambda: c11.wit(pre, got=R.tolist(), expected=want))
    return True


def column_bounds_post(pre, args, kwargs, result):
    ctx = monitor.CTX
    if pre is None:
        raise monitor.OutOfScope()
    R = numpy.asarray(result)
    want = [[l for l, u in pre["bounds"]], [u for l, u in pre["bounds"]]]
    ctx.check(R.tolist() == want, "column_bounds=declared", lambda: c11.wit(pre, got=R.tolist(), expected=want))
    return True


def nrc_post(pre, args, kwargs, result):
    ctx = monitor.CTX
    if pre is None:
        raise monitor.OutOfScope()
    want = []
    for i in range(pre["A"].shape[0]):
        t = 1
        for j in range(pre["A"].shape[1]):
            if pre["A"][i, j] != 0:
                t *= pre["bounds"][j][1] - pre["bounds"][j][0] + 1
        want.append(t)
    if any(w >= 2 ** 62 for w in want):
        raise monitor.OutOfScope()
    got = [int(v) for v in numpy.asarray(result).reshape(-1)]
    ctx.check(got == want, "n_row_combinations", lambda: c11.wit(pre, got=got, expected=want))
    return True


def install(ctx):
    G = pnd.ge_polyhedron
    monitor.attach(G, "tighten_column_bounds", tighten_post, c11.snap)
    monitor.attach(G, "row_bounds", row_bounds_post, c11.snap)
    monitor.attach(G, "column_bounds", column_bounds_post, c11.snap)
    monitor.attach(G, "n_row_combinations", nrc_post, c11.snap)


def gen_case(rng, tier, ctx, i):
    if rng.random() < 0.02:
        # wide rows over small boxes: the number of combinations of a row leaves the range a double represents exactly (but not 64 bits)
        n = rng.randint(26, 39)
        b_ = rng.choice([(0, 2), (-1, 1), (0, 2), (0, 3)])
        if b_ == (0, 3):
            n = min(n, 30)
        rows = [[rng.randint(-3, 3)] + [rng.choice([1, -1, 2, 1]) for _ in range(n)] for _ in range(rng.randint(1, 2))]
        if rng.random() < 0.5:
            rows.append([0] + [rng.choice([0, 1, -1]) for _ in range(n)])
        ctx.count("count:wide-rows")
        return {"poly": {"M": rows, "ids": ["c%d" % k for k in range(n)], "bounds": [list(b_)] * n, "index": None}, "wide": True}
    p = polygen.gen_poly(rng)
    if rng.random() < 0.5:
        # over-represent |a| > 1 so that the divisions in the tightening are fractional
        for row in p["M"]:
            for j in range(1, len(row)):
                if row[j] and rng.random() < 0.6:
                    row[j] *= rng.choice([2, 3, -2, 5, 7])
    case = {"poly": p}
    if rng.random() < 0.2:
        case["derive"] = rng.getrandbits(32)
    elif rng.random() < 0.15:
        case["redeclare"] = rng.getrandbits(32)
    return case


def run_case(case, ctx):
    P = polygen.build_poly(case["poly"])
    if case.get("wide"):
        ctx.call("row_bounds", P.row_bounds)
        ctx.call("column_bounds", P.column_bounds)
        ctx.call("n_row_combinations", lambda: P.n_row_combinations)
        return
    ctx.call("tighten_column_bounds", P.tighten_column_bounds)
    ctx.call("row_bounds", P.row_bounds)
    ctx.call("column_bounds", P.column_bounds)
    ctx.call("n_row_combinations", lambda: P.n_row_combinations)
    c11.receiver_unchanged(ctx, case, P)
    if case.get("redeclare") is not None and not case["poly"].get("dtype"):
        # one column is re-declared afterwards (an element of P.variables replaced by a variable with other bounds): every answer is about the columns as declared now
        import random
        import puan
        r_ = random.Random(case["redeclare"])
        j = r_.randrange(1, len(P.variables))
        v_ = P.variables[j]
        lo_, hi_ = int(v_.bounds.lower), int(v_.bounds.upper)
        nb_ = r_.choice([(lo_ - 2, hi_ + 1), (lo_, hi_ + 2), (lo_ - 1, hi_), (min(lo_ + 1, hi_), hi_)])
        P.variables[j] = puan.variable(v_.id, bounds=(max(-32768, nb_[0]), min(32767, nb_[1])))
        ctx.count("count:column-redeclared-in-place")
        ctx.call("tighten_column_bounds", P.tighten_column_bounds)
        ctx.call("row_bounds", P.row_bounds)
        ctx.call("column_bounds", P.column_bounds)
        ctx.call("n_row_combinations", lambda: P.n_row_combinations)
        return
    if case.get("derive") is not None:
        # a second polyhedron derived from the first one by ordinary array operations, asked the same questions about its own entries
        import random
        how, Q = polygen.derive(P, random.Random(case["derive"]))
        if type(Q) is type(P) and numpy.asarray(Q).ndim == 2 and getattr(Q, "variables", None) is not None:
            ctx.count("count:derived-polyhedron:" + how)
            ctx.call("tighten_column_bounds", Q.tighten_column_bounds)
            ctx.call("row_bounds", Q.row_bounds)
            ctx.call("column_bounds", Q.column_bounds)
            ctx.call("n_row_combinations", lambda: Q.n_row_combinations)
        else:
            ctx.count("derived-polyhedron:not-a-polyhedron")
