"""generator of integer polyhedra (cases are JSON-able) shared by C11, C12, C19, C20"""
import numpy
import puan
import puan.ndarray as pnd

COEF_SETS = [[-1, 1], [-1, 0, 1], [-3, -2, -1, 0, 1, 2, 3, 5, 7], [-100, -1, 0, 1, 100], [-32767, -1, 0, 1, 32767, 65535],
             list(range(-130, 131)), [-49, 49, -75, 77, -91, 93, -98, 99, -103, 105, -107, 117, 0, 1]]
INT16 = [(-32768, 32767), (0, 32767), (-32768, 0)]


def gen_poly(rng, max_rows=4, max_cols=4, allow_int16=True, small=False, narrow=True):
    n = rng.randint(1, max_cols)
    m = rng.randint(1, max_rows)
    bounds = []
    have16 = False
    for j in range(n):
        r = rng.random()
        if r < 0.5:
            bounds.append((0, 1))
        elif r < 0.8 or small:
            lo = rng.randint(-3, 2)
            bounds.append((lo, lo + rng.randint(0, 4)))
        elif allow_int16 and not have16 and r < 0.92:
            bounds.append(rng.choice(INT16))
            have16 = True
        else:
            lo = rng.randint(-20, 10)
            bounds.append((lo, lo + rng.randint(0, 30)))
    cs = rng.choice(COEF_SETS)
    rows = []
    for i in range(m):
        r = rng.random()
        if r < 0.08 and rows:
            rows.append(list(rng.choice(rows)))          # duplicate row
            continue
        if r < 0.14:
            rows.append([rng.choice([-1, 0, 1])] + [0] * n)   # zero row
            continue
        a = [rng.choice(cs) for _ in range(n)]
        style = rng.random()
        lo = sum(min(c * l, c * u) for c, (l, u) in zip(a, bounds))
        hi = sum(max(c * l, c * u) for c, (l, u) in zip(a, bounds))
        if style < 0.25:
            b = lo - rng.randint(0, 2)                   # always satisfied
        elif style < 0.4:
            b = hi + rng.choice([0, 0, 1])               # tight at the maximum / infeasible
        elif style < 0.7 and hi > lo:
            b = rng.randint(lo, hi)
        else:
            b = rng.choice(cs) * rng.choice([1, 1, 2])
        rows.append([int(b)] + a)
    if rng.random() < 0.1 and n > 1:
        j = rng.randrange(n)
        for r_ in rows:
            r_[1 + j] = 0                                # zero column
    if have16 and rng.random() < 0.5:
        # a row that pins a column exactly next to an edge of its (default integer) range
        j = next(k for k, b_ in enumerate(bounds) if b_ in INT16)
        lo, hi = bounds[j]
        row = [0] * (n + 1)
        if rng.random() < 0.5:
            row[1 + j] = -1
            row[0] = -(lo + rng.choice([0, 1, 1, 2]))     # x <= lo + d
        else:
            row[1 + j] = 1
            row[0] = hi - rng.choice([0, 1, 1, 2])        # x >= hi - d
        rows[rng.randrange(len(rows))] = row
    ids = rng.sample(["x", "y", "z", "w", "u", "v", "a b", "", "ä", "q,r"], n)
    idx = ["r%d" % i for i in range(m)] if rng.random() < 0.7 else None
    if idx and m >= 2 and rng.random() < 0.2:
        idx[rng.randrange(1, m)] = idx[0]            # two rows that stem from the same proposition carry the same index id
    case = {"M": rows, "ids": ids, "bounds": [list(b) for b in bounds], "index": idx}
    if rng.random() < 0.1:
        case["subclass_vars"] = True       # column variables are instances of a subclass of puan.variable
    if rng.random() < 0.5:
        case["dtype_int"] = True
    if rng.random() < 0.12:
        case["dtype_with_bounds"] = True
    if rng.random() < 0.1:
        case["numpy_bounds"] = True        # the bounds of every variable are narrow numpy integers (e.g. columns of an int8/int16 table)
    if rng.random() < 0.15:
        case["config"] = [rng.choice([-1, -1, -2]) for _ in range(n)]      # the receiver is a ge_polyhedron_config (subclass)
    if rng.random() < 0.2:
        case["first_variable"] = rng.choice([["0", 0, 1], ["0", 0, 1], ["b", -5, 5]])     # column 0 need not carry the (1,1) support variable
    if narrow:
        mx = max(abs(v) for r_ in rows for v in r_) if rows else 0
        fits = [d for d, lim in (("int32", 2 ** 31), ("int16", 2 ** 15), ("int8", 2 ** 7)) if mx < lim]
        if fits and rng.random() < 0.35:
            case["dtype"] = rng.choice(fits)         # the matrix is stored in a narrower integer type
    return case


def build_poly(case, cls=None):
    fv = case.get("first_variable")
    first = puan.variable(fv[0], bounds=(fv[1], fv[2])) if fv else puan.variable.support_vector_variable()

    def mk(i, b):
        if case.get("subclass_vars"):
            from ..recipes import Item
            return Item(i, bounds=tuple(b))
        if tuple(b) == (-32768, 32767) and case.get("dtype_int"):
            return puan.variable(i, dtype="int")            # the library's own way of declaring an integer variable
        if case.get("dtype_with_bounds") and tuple(b) != (0, 1):
            return puan.variable(i, bounds=tuple(b), dtype="int")       # explicit bounds together with the declared dtype: the bounds are the given ones
        if case.get("numpy_bounds"):
            t = numpy.int8 if -128 <= b[0] and b[1] <= 127 else numpy.int16
            return puan.variable(i, bounds=(t(b[0]), t(b[1])))
        return puan.variable(i, bounds=tuple(b))
    variables = [first] + [mk(i, b) for i, b in zip(case["ids"], case["bounds"])]
    from .. import monitor as _m
    if _m.CTX is not None:
        # the columns carry the bounds they were declared with (an oracle reading the box back from the object would agree with anything stored)
        bad = {str(i): [list(b), [int(v.bounds.lower), int(v.bounds.upper)]] for i, b, v in zip(case["ids"], case["bounds"], variables[1:])
               if (int(v.bounds.lower), int(v.bounds.upper)) != (int(b[0]), int(b[1]))}
        _m.CTX.check(not bad, "column-bounds-as-declared", lambda: {"declared_vs_stored": bad})
    kw = {}
    if cls is None and case.get("config"):
        kw["default_prio_vector"] = numpy.array(case["config"])
        cls = pnd.ge_polyhedron_config
    if case.get("index"):
        kw["index"] = [puan.variable(i) for i in case["index"]]
    cls = cls or pnd.ge_polyhedron
    P = cls(numpy.array(case["M"], dtype=numpy.int64), variables=variables, **kw)
    if case.get("dtype") and cls is pnd.ge_polyhedron:
        info = numpy.iinfo(getattr(numpy, case["dtype"]))
        if all(info.min <= v <= info.max for r_ in case["M"] for v in r_):      # only when every entry fits (no wrap-around made by the harness)
            P = P.astype(getattr(numpy, case["dtype"]))
    return P


def read(P):
    """(A int64 2-D, b int64 1-D, bounds list, column ids, index ids) read from a polyhedron at the API boundary"""
    M = numpy.asarray(P).astype(numpy.int64)
    A = M[:, 1:]
    b = M[:, 0]
    vs = list(P.variables)
    bounds = [(int(v.bounds.lower), int(v.bounds.upper)) for v in vs[1:]]
    ids = [v.id for v in vs[1:]]
    index = [getattr(v, "id", v) for v in list(P.index)] if getattr(P, "index", None) is not None else None
    return A, b, bounds, ids, index


def within_int16(bounds):
    return all(-32768 <= l <= u <= 32767 for l, u in bounds)


def derive(P, rng, hows=("scale", "copy-edit", "reverse-rows", "add", "negate-row")):       # row count kept: the row index the copy carries still fits
    """a polyhedron that numpy derives from P (same class, variables carried along by the library's __array_finalize__), with other entries
    or another row order than P: what an earlier answer about P remembered must not leak into the answers about it"""
    M = numpy.asarray(P)
    how = rng.choice(list(hows))
    if how == "scale":
        k = rng.choice([2, 3])
        info = numpy.iinfo(M.dtype)
        if (numpy.abs(M.astype(object)) * k > info.max).any():
            k = 1
        Q = k * P
    elif how == "copy-edit":
        Q = P.copy()
        i, j = rng.randrange(M.shape[0]), rng.randrange(M.shape[1])
        v = int(M[i, j]) + rng.choice([-2, -1, 1, 2, 3])
        info = numpy.iinfo(M.dtype)
        Q[i, j] = v if info.min <= v <= info.max else int(M[i, j]) // 2            # stays inside the array's own integer type
    elif how == "reverse-rows":
        Q = P[::-1]
    elif how == "add":
        D = numpy.array([[rng.choice([0, 0, 1, -1, 2]) for _ in range(M.shape[1])] for _ in range(M.shape[0])], dtype=numpy.int64)
        info = numpy.iinfo(M.dtype)
        D[(M.astype(numpy.int64) + D > info.max) | (M.astype(numpy.int64) + D < info.min)] = 0
        Q = P + D.astype(M.dtype)
    elif how == "negate-row":
        Q = P.copy()
        i = rng.randrange(M.shape[0])
        Q[i] = -1 * numpy.asarray(Q[i])
    else:
        Q = P[[rng.randrange(M.shape[0]) for _ in range(rng.randint(1, M.shape[0]))]]
    return how, Q
