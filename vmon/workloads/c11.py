"""C11 Polyhedron reduction preserves the integer solution set.

Monitors: post-conditions on the real ge_polyhedron.reducable_rows, reducable_columns_approx,
reducable_rows_and_columns, reduce_rows, reduce_columns, reduce (and the module-level aliases, rebound).
Oracle: the complete integer solution set of the receiver by numpy meshgrid enumeration over the variable box
(up to ~600k points: four small columns, or one int16 column plus boolean ones).
"""
import random

import numpy
import puan
import puan.ndarray as pnd

from .. import monitor, refmodel
from . import polygen

PROP = "C11"
RULE = ("cases: random polyhedra with 1-4 rows and 1-4 columns, bounds boolean / small ranges / one int16 column, coefficients "
        "from {+-1}, {-3..3,5,7}, big-M like {+-100, +-32767, 65535}, duplicate and zero rows, zero columns, rows that are always / never "
        "satisfiable; every nested call on the intermediate polyhedra of the fixpoint loop is judged too. non-trivial: the system "
        "is feasible and at least one row or column was reported reducible; distinct by digest of (matrix, bounds)"
        ' Also: matrices stored as int8/16/32, duplicate ids in the row index, column 0 carrying a boolean variable, direct reduce_columns/reduce_rows on the receiver followed by further queries (receiver must be unchanged).')
BUDGET = {"quick": (12, 390, 90), "thorough": (16, 2500, 1200)}
PYTEST = True     # thorough tier also runs the repository's own tests under these monitors
MANDATORY = ["judged:reducible-row-holds-everywhere", "judged:forced-column-value", "judged:reduce-preserves-projection",
             "judged:result-variables-and-index", "judged:reduce_rows-definition", "judged:reduce_columns-definition",
             "count:feasible", "count:infeasible", "count:some-row-reducible", "count:some-column-forced",
             "contract:ge_polyhedron.reducable_rows_and_columns", "contract:ge_polyhedron.reduce", "judged:receiver-unchanged"]
LIMIT = 600_000


def snap(args, kwargs):
    P = args[0]
    if not isinstance(P, pnd.ge_polyhedron) or numpy.asarray(P).ndim != 2 or getattr(P, "variables", None) is None:
        return None
    if len(P.variables) != numpy.asarray(P).shape[1] or numpy.asarray(P).shape[1] < 2 or numpy.asarray(P).shape[0] < 1:
        return None          # a polyhedron without columns or rows (seen in the repository's tests): nothing to say
    A, b, bounds, ids, index = polygen.read(P)
    if not polygen.within_int16(bounds):
        return None
    return {"A": A.copy(), "b": b.copy(), "bounds": bounds, "ids": ids, "index": index,
            "vars": [(v.id, int(v.bounds.lower), int(v.bounds.upper)) for v in P.variables]}


def sols(pre):
    if "sol" not in pre:
        r = refmodel.solutions(pre["A"], pre["b"], pre["bounds"], LIMIT)
        pre["sol"] = None if r is None else r[0][r[1]]
    return pre["sol"]


def wit(pre, **kw):
    d = {"M": numpy.column_stack([pre["b"], pre["A"]]).tolist(), "bounds": pre["bounds"], "ids": pre["ids"]}
    d.update(kw)
    return d


def rows_post(pre, args, kwargs, result):
    ctx = monitor.CTX
    if pre is None:
        raise monitor.OutOfScope()
    r = numpy.asarray(result).astype(bool).reshape(-1)
    mm = refmodel.row_minmax(pre["A"], pre["b"], pre["bounds"])
    ok = len(r) == len(mm)
    bad = None
    if ok:
        for i, flag in enumerate(r):
            if flag and mm[i][0] < 0:
                bad = {"row": i, "min_of_row_minus_b": mm[i][0]}
                break
    ctx.check(ok and bad is None, "reducible-row-holds-everywhere", lambda: wit(pre, reported=r.tolist(), bad=bad))
    if r.any():
        ctx.count("count:some-row-reducible")
    return True


def check_forced(ctx, pre, cols, sub="forced-column-value"):
    cols = numpy.asarray(cols, dtype=float).reshape(-1)
    if len(cols) != pre["A"].shape[1]:
        ctx.check(False, sub, lambda: wit(pre, reported=cols.tolist(), bad="length"))
        return None
    S = sols(pre)
    if S is None:
        ctx.count("out_of_scope:box-too-large")
        return None
    bad = None
    for j, v in enumerate(cols):
        if not numpy.isnan(v):
            if len(S) and not (S[:, j] == v).all():
                k = int(numpy.argmax(S[:, j] != v))
                bad = {"column": j, "forced": float(v), "solution": S[k].tolist()}
                break
            l, u = pre["bounds"][j]
            if len(S) and not (l <= v <= u and float(v).is_integer()):
                bad = {"column": j, "forced": float(v), "bounds": [l, u]}
                break
    ctx.check(bad is None, sub, lambda: wit(pre, reported=[None if numpy.isnan(v) else float(v) for v in cols], bad=bad))
    if (~numpy.isnan(cols)).any():
        ctx.count("count:some-column-forced")
    return S


def cols_post(pre, args, kwargs, result):
    ctx = monitor.CTX
    if pre is None:
        raise monitor.OutOfScope()
    check_forced(ctx, pre, result)
    return True


def rc_post(pre, args, kwargs, result):
    ctx = monitor.CTX
    if pre is None:
        raise monitor.OutOfScope()
    P = args[0]
    rows, cols = result
    rows = numpy.asarray(rows).astype(int).reshape(-1)
    colsf = numpy.asarray(cols, dtype=float).reshape(-1)
    S = check_forced(ctx, pre, colsf)
    if S is None:
        return True
    ctx.count("count:feasible" if len(S) else "count:infeasible")
    if len(rows) != len(pre["b"]):
        ctx.check(False, "reduce-preserves-projection", lambda: wit(pre, rows=rows.tolist(), bad="rows length"))
        return True
    red = pnd.ge_polyhedron.reduce(P, result[0], result[1])          # the documented composition (not judged itself: guard is on)
    A2, b2, bounds2, ids2, index2 = polygen.read(red)
    kept = numpy.isnan(colsf)
    # variables / index of the result describe its rows and columns
    exp_vars = [pre["vars"][0]] + [v for v, k in zip(pre["vars"][1:], kept) if k]
    got_vars = [(v.id, int(v.bounds.lower), int(v.bounds.upper)) for v in red.variables]
    exp_index = None if pre["index"] is None else [i for i, r in zip(pre["index"], rows) if r == 0]
    shape_ok = numpy.asarray(red).shape == (int((rows == 0).sum()), 1 + int(kept.sum()))
    ctx.check(shape_ok and got_vars == exp_vars and (exp_index is None or index2 == exp_index), "result-variables-and-index",
              lambda: wit(pre, rows=rows.tolist(), cols=[None if numpy.isnan(v) else v for v in colsf], got_vars=got_vars, exp_vars=exp_vars,
                          got_index=index2, exp_index=exp_index, shape=list(numpy.asarray(red).shape)))
    if not shape_ok:
        return True
    proj = {tuple(p) for p in S[:, kept].tolist()}
    r2 = refmodel.solutions(A2, b2, bounds2, LIMIT)
    if r2 is None:
        ctx.count("out_of_scope:box-too-large")
        return True
    S2 = {tuple(p) for p in r2[0][r2[1]].tolist()}
    ctx.check(proj == S2, "reduce-preserves-projection",
              lambda: wit(pre, rows=rows.tolist(), cols=[None if numpy.isnan(v) else v for v in colsf],
                          reduced=numpy.asarray(red).tolist(), only_in_projection=sorted(proj - S2)[:3], only_in_reduced=sorted(S2 - proj)[:3],
                          n_projection=len(proj), n_reduced=len(S2)))
    if len(S) and (rows.any() or (~kept).any()):
        ctx.nt(monitor.digest([pre["A"].tolist(), pre["b"].tolist(), pre["bounds"]]))
    ctx.sample(wit(pre, reducible_rows=rows.tolist(), forced_columns=[None if numpy.isnan(v) else v for v in colsf], solutions=len(S), reduced_solutions=len(S2)))
    return True


def reduce_rows_post(pre, args, kwargs, result):
    ctx = monitor.CTX
    if pre is None:
        raise monitor.OutOfScope()
    rv = numpy.asarray(args[1] if len(args) > 1 else kwargs["rows_vector"]).reshape(-1)
    if len(rv) != len(pre["b"]):
        raise monitor.OutOfScope()
    msk = rv == 0
    M = numpy.column_stack([pre["b"], pre["A"]])
    A2, b2, bounds2, ids2, index2 = polygen.read(result)
    ok = numpy.array_equal(numpy.column_stack([b2, A2]), M[msk]) and ids2 == pre["ids"] and bounds2 == pre["bounds"]
    if pre["index"] is not None:
        ok = ok and index2 == [i for i, k in zip(pre["index"], msk) if k]
    ctx.check(ok, "reduce_rows-definition", lambda: wit(pre, rows_vector=rv.tolist(), result=numpy.asarray(result).tolist(), index=index2, ids=ids2))
    return True


def reduce_columns_post(pre, args, kwargs, result):
    ctx = monitor.CTX
    if pre is None:
        raise monitor.OutOfScope()
    cv = numpy.asarray(args[1] if len(args) > 1 else kwargs["columns_vector"], dtype=float).reshape(-1)
    if len(cv) != pre["A"].shape[1]:
        raise monitor.OutOfScope()
    act = ~numpy.isnan(cv)
    if not all(float(v).is_integer() for v in cv[act]):
        raise monitor.OutOfScope()
    A2, b2, bounds2, ids2, index2 = polygen.read(result)
    expA = pre["A"][:, ~act]
    expb = pre["b"] - (pre["A"][:, act] * cv[act].astype(numpy.int64)).sum(axis=1)
    ok = A2.shape == expA.shape and numpy.array_equal(A2, expA) and numpy.array_equal(b2, expb)
    ok = ok and ids2 == [i for i, k in zip(pre["ids"], ~act) if k] and bounds2 == [x for x, k in zip(pre["bounds"], ~act) if k]
    if pre["index"] is not None:
        ok = ok and index2 == pre["index"]
    ctx.check(ok, "reduce_columns-definition", lambda: wit(pre, columns_vector=[None if numpy.isnan(v) else v for v in cv],
                                                         result=numpy.asarray(result).tolist(), ids=ids2, expected_b=expb.tolist()))
    return True


def reduce_post(pre, args, kwargs, result):
    ctx = monitor.CTX
    if pre is None:
        raise monitor.OutOfScope()
    rv = args[1] if len(args) > 1 else kwargs.get("rows_vector")
    cv = args[2] if len(args) > 2 else kwargs.get("columns_vector")
    M = numpy.column_stack([pre["b"], pre["A"]])
    idx = pre["index"]
    ids, bounds = pre["ids"], pre["bounds"]
    if rv is not None:
        r = numpy.asarray(rv).reshape(-1)
        if len(r) != M.shape[0]:
            raise monitor.OutOfScope()
        M = M[r == 0]
        idx = None if idx is None else [i for i, k in zip(idx, r == 0) if k]
    if cv is not None:
        c = numpy.asarray(cv, dtype=float).reshape(-1)
        if len(c) != M.shape[1] - 1 or not all(float(v).is_integer() for v in c[~numpy.isnan(c)]):
            raise monitor.OutOfScope()
        act = ~numpy.isnan(c)
        b = M[:, 0] - (M[:, 1:][:, act] * c[act].astype(numpy.int64)).sum(axis=1)
        M = numpy.column_stack([b, M[:, 1:][:, ~act]])
        ids = [i for i, k in zip(ids, ~act) if k]
        bounds = [x for x, k in zip(bounds, ~act) if k]
    A2, b2, bounds2, ids2, index2 = polygen.read(result)
    got = numpy.column_stack([b2, A2])
    ok = got.shape == M.shape and numpy.array_equal(got, M) and ids2 == ids and bounds2 == bounds and (idx is None or index2 == idx)
    ctx.check(ok, "reduce-definition", lambda: wit(pre, rows_vector=None if rv is None else numpy.asarray(rv).tolist(),
                                                  columns_vector=None if cv is None else [None if numpy.isnan(v) else v for v in numpy.asarray(cv, dtype=float)],
                                                  result=got.tolist(), expected=M.tolist(), ids=ids2, index=index2))
    return True


ALIASES = ["reducable_columns_approx", "reduce_columns", "reducable_rows", "reduce_rows", "reducable_rows_and_columns", "reduce"]


def install(ctx):
    G = pnd.ge_polyhedron
    monitor.attach(G, "reducable_rows", rows_post, snap)
    monitor.attach(G, "reducable_columns_approx", cols_post, snap)
    monitor.attach(G, "reducable_rows_and_columns", rc_post, snap)
    monitor.attach(G, "reduce_rows", reduce_rows_post, snap)
    monitor.attach(G, "reduce_columns", reduce_columns_post, snap)
    monitor.attach(G, "reduce", reduce_post, snap)
    for a in ALIASES:
        monitor.rebind_alias(pnd, a, G, a)


def narrow_forced_poly(rng):
    """a polyhedron stored in int8/int16 (every entry fits) in which a column gets a forced value and moving it into the support column
    leaves the stored type's range (the result is still an ordinary integer system)"""
    dt = rng.choice(["int8", "int16"])
    lim = 127 if dt == "int8" else 32767
    U = rng.randint(5, 12) if dt == "int8" else rng.randint(100, 300)
    a = rng.randint(lim // U // 2 + 2, lim // U + 3) if lim // U + 3 <= lim else lim
    a = min(a, lim)
    sgn = rng.choice([1, -1])
    b = -sgn * rng.randint(lim // 2, lim - 1)            # b - sgn*a*U overshoots the range on the side of b's sign
    c = rng.choice([1, -1, 2])
    rows = [[U, 1, 0], [int(b), sgn * a, c]]
    if rng.random() < 0.5:
        rows.append([rng.choice([0, -1]), 0, rng.choice([1, -1])])
    rng.shuffle(rows)
    return {"M": rows, "ids": rng.sample(["x", "y"], 2) if False else ["x", "y"], "bounds": [[0, U], list(rng.choice([(0, 1), (-2, 3), (0, 5)]))],
            "index": None, "dtype": dt}


def gen_case(rng, tier, ctx, i):
    if rng.random() < 0.04:
        ctx.count("count:narrow-dtype-forced-column")
        return {"poly": narrow_forced_poly(rng), "via": rng.choice(["method", "alias", "direct"])}
    case = {"poly": polygen.gen_poly(rng), "via": rng.choice(["method", "alias", "class", "direct"])}
    if rng.random() < 0.12:
        case["derive"] = rng.getrandbits(32)
    elif rng.random() < 0.12:
        case["redeclare"] = rng.getrandbits(32)
    return case


def receiver_unchanged(ctx, case, P):
    """the polyhedron the caller holds is still the one that was built (nothing observed through it may have moved)"""
    now = numpy.asarray(P).astype(numpy.int64).tolist()
    ctx.check(now == case["poly"]["M"], "receiver-unchanged", lambda: {"built": case["poly"]["M"], "now": now, "bounds": case["poly"]["bounds"]})
    return now == case["poly"]["M"]


def run_case(case, ctx):
    _run(case, ctx)


def _run(case, ctx):
    P = polygen.build_poly(case["poly"])
    if case["via"] == "direct":
        rc = ctx.call("reducable_rows_and_columns", P.reducable_rows_and_columns)
        ctx.call("reduce_columns", P.reduce_columns, rc[1])
        if not receiver_unchanged(ctx, case, P):
            return
        ctx.call("reduce_rows", P.reduce_rows, rc[0])
        ctx.call("reduce", P.reduce, rc[0], rc[1])
        ctx.call("reducable_rows_and_columns", P.reducable_rows_and_columns)
        receiver_unchanged(ctx, case, P)
        return
    if case["via"] == "method":
        rc = ctx.call("reducable_rows_and_columns", P.reducable_rows_and_columns)
        ctx.call("reduce", P.reduce, *rc)
    elif case["via"] == "alias":
        rc = ctx.call("reducable_rows_and_columns", pnd.reducable_rows_and_columns, P)
        ctx.call("reduce", pnd.reduce, P, rc[0], rc[1])
    else:
        ctx.call("reducable_rows", pnd.ge_polyhedron.reducable_rows, P)
        ctx.call("reducable_columns_approx", pnd.ge_polyhedron.reducable_columns_approx, P)
        rc = ctx.call("reducable_rows_and_columns", pnd.ge_polyhedron.reducable_rows_and_columns, P)
        ctx.call("reduce", P.reduce, rows_vector=rc[0])
        ctx.call("reduce", P.reduce, columns_vector=rc[1])
    receiver_unchanged(ctx, case, P)
    if case.get("redeclare") is not None and not case["poly"].get("dtype"):
        # one column is re-declared afterwards (an element of P.variables replaced by a variable with other bounds) and the questions are asked again
        import random
        import puan
        r_ = random.Random(case["redeclare"])
        j = r_.randrange(1, len(P.variables))
        v_ = P.variables[j]
        lo_, hi_ = int(v_.bounds.lower), int(v_.bounds.upper)
        nb_ = r_.choice([(lo_ - 2, hi_ + 1), (lo_, hi_ + 2), (lo_ - 1, hi_), (min(lo_ + 1, hi_), hi_)])
        P.variables[j] = puan.variable(v_.id, bounds=(max(-32768, nb_[0]), min(32767, nb_[1])))
        ctx.count("count:column-redeclared-in-place")
        ctx.call("reducable_rows", P.reducable_rows)
        ctx.call("reducable_columns_approx", P.reducable_columns_approx)
        rc = ctx.call("reducable_rows_and_columns", P.reducable_rows_and_columns)
        ctx.call("reduce", P.reduce, *rc)
        return
    if case.get("derive") is not None:
        # a polyhedron derived from the first one by ordinary array operations (same rows in the same order, other entries)
        import random
        how, Q = polygen.derive(P, random.Random(case["derive"]), hows=("scale", "copy-edit", "add", "negate-row"))
        if type(Q) is type(P):
            ctx.count("count:derived-polyhedron:" + how)
            rc = ctx.call("reducable_rows_and_columns", Q.reducable_rows_and_columns)
            ctx.call("reduce", Q.reduce, *rc)
