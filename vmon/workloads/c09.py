"""C09 Queries are pure and results are independent of call history.

Recorded call histories over several live objects (models, configurators and their derivatives) and a checker that
runs while the history is recorded:
 purity        after every call the observable state (structural digest + packed form) of *every* live object is
               compared with its state before the call;
 independence  the digest of every result is compared with the answer of a pristine forked process that builds the
               same object from its recipe and performs only this one call (vmon/forkref.py).
An attribute-write hook on AtLeast names the writer of every post-construction write to an older object; it feeds the
classifier of the one known finding (assume() rebinding `variable` of a node named in its dictionary), whose effect is
then *modelled* in the object's recipe so that later calls on the same objects keep being judged.
"""
import copy
import random
import sys
import weakref

import puan
import puan.logic.plog as pg
import puan.modules.configurator as cc

from .. import adapters, digest, forkref, histops, monitor, recipes, refmodel
from . import common, confgen

PROP = "C09"
RULE = ("cases: histories of 6-30 calls over 2-5 live objects (plog models, configurators, hostile twin configurators that differ only in "
        "bounds/values colliding under the library's hashes, and every model/configurator returned by assume/reduce/negate/add/round trips); ops: "
        + ", ".join(histops.PLOG_OPS + histops.CFG_OPS) + "; arguments name leaf and sub-proposition ids. non-trivial: the history touches >=2 objects and "
        "contains a call naming a sub-proposition id or >=2 configurators; distinct by digest of the op sequence")
BUDGET = {"quick": (12, 100, 90), "thorough": (16, 1000, 1200)}
MANDATORY = ["judged:purity", "judged:history-independence", "count:twin-configurators", "count:derived-objects", "count:calls-naming-compound-id"] + \
            ["count:op:" + o for o in histops.PLOG_OPS + histops.CFG_OPS]

FORK = None
EPOCH = [0]
BORN = {}
WRITES = []


def _cleanup(key):
    def cb(_):
        BORN.pop(key, None)
    return cb


def install_write_hook():
    """names the writer of every attribute write on AtLeast objects; objects are stamped with their birth epoch"""
    def __setattr__(self, name, value):
        key = id(self)
        b = BORN.get(key)
        if b is None:
            try:
                BORN[key] = (EPOCH[0], weakref.ref(self, _cleanup(key)))
            except TypeError:
                BORN[key] = (EPOCH[0], None)
        elif b[0] < EPOCH[0]:
            f = sys._getframe(1)
            WRITES.append((name, getattr(f.f_code, "co_qualname", f.f_code.co_name)))
        object.__setattr__(self, name, value)
    pg.AtLeast.__setattr__ = __setattr__


def install(ctx):
    global FORK
    FORK = forkref.ForkRef()          # started before any API call of this shard; it never serves one itself
    install_write_hook()


def finalize(ctx):
    if FORK is not None:
        ctx.count("fork-requests", FORK.requests)
        FORK.close()


# ------------------------------------------------------------------------------------------- generation
def twin_configs(rng):
    kind = rng.choice(["bounds", "value", "value", "default"])
    if kind == "default":
        # same ids, same text form: one rule states a default, its twin spells the same structure out without one
        its = rng.sample("abcde", 3)
        d = its[-1]
        rest = [{"k": "var", "id": i, "b": [0, 1]} for i in its[:-1]]
        with_default = {"k": "Stingy", "id": "main", "args": [
            {"k": "ccAny", "id": "R", "args": [{"k": "var", "id": i, "b": [0, 1]} for i in its], "default": [d]},
            {"k": "AtMost", "id": "S", "value": 2, "args": [{"k": "var", "id": i, "b": [0, 1]} for i in its]}]}
        spelled_out = {"k": "Stingy", "id": "main", "args": [
            {"k": "Any", "id": "R", "args": [{"k": "var", "id": d, "b": [0, 1]}, {"k": "Any", "id": None, "args": rest}]},
            {"k": "AtMost", "id": "S", "value": 2, "args": [{"k": "var", "id": i, "b": [0, 1]} for i in its]}]}
        pair = [with_default, spelled_out]
        rng.shuffle(pair)
        return pair
    if kind == "bounds":
        b1, b2 = rng.choice(recipes.TWINS)
        mk = lambda b: {"k": "Stingy", "id": "main", "args": [
            {"k": "AtLeast", "id": "R", "value": 2, "args": [{"k": "var", "id": "a", "b": list(b)}, {"k": "var", "id": "x", "b": [0, 1]}]},
            {"k": "Any", "id": "S", "args": [{"k": "var", "id": "x", "b": [0, 1]}, {"k": "var", "id": "y", "b": [0, 1]}]}]}
        return [mk(b1), mk(b2)]
    # hash(-1) == hash(-2): AtMost(1, ..) and AtMost(2, ..) under the same rule id
    items = [{"k": "var", "id": i, "b": [0, 1]} for i in rng.sample("abcde", 3)]
    mk = lambda v: {"k": "Stingy", "id": "main", "args": [
        {"k": "AtMost", "id": "R", "value": v, "args": copy.deepcopy(items)},
        {"k": "ccAny", "id": "S", "args": copy.deepcopy(items[:2]), "default": [items[0]["id"]]}]}
    return [mk(1), mk(2)]


def gen_case(rng, tier, ctx, i):
    if i == 0 and ctx.seed % 1000 == 0:
        # the recorded witness of the open finding `assume-rebinds-named-node` is replayed in every run
        m = {"k": "All", "id": "T", "args": [{"k": "Any", "id": "X", "args": [{"k": "var", "id": "a", "b": [0, 1]}, {"k": "var", "id": "b", "b": [0, 1]}]},
                                             {"k": "var", "id": "c", "b": [0, 1]}]}
        return {"bases": [m, copy.deepcopy(m)], "steps": 0, "seed": 1,
                "script": [[0, "evaluate", [{"a": 1, "b": 0, "c": 1, "X": 0}]], [0, "evaluate", [{"a": 1, "b": 0, "c": 1}]], [1, "evaluate", [{"a": 1, "b": 0, "c": 1}]]]}
    bases = []
    r = rng.random()
    if r < 0.35:
        bases += twin_configs(rng)
    n = rng.randint(2, 3) if not bases else rng.randint(0, 1)
    for _ in range(n):
        if rng.random() < 0.4:
            bases.append(confgen.gen_config(rng, cid=rng.random() < 0.8))
        else:
            o = common.varied_opts(rng, tier, p_int=0.2, p_big=0.05, depth=rng.choice([2, 3]), maxfan=3, nleaf=4, p_subclass=0.25, p_str=0.0)
            rec = common.model_case(rng, tier, o)
            if rec is not None:
                bases.append(rec)
    if not bases:
        return None
    return {"bases": bases, "steps": rng.randint(6, 30), "seed": rng.getrandbits(32)}


def rand_interp(rng, graph, top, name_compound_p=0.4):
    d = {}
    named_compound = False
    for lid in refmodel.leaves(graph, top):
        lo, hi = graph[lid]["b"]
        r = rng.random()
        if r < 0.25:
            continue
        v = rng.randint(max(lo, -5), min(hi, 5)) if hi - lo > 10 else rng.randint(lo, hi)
        if r < 0.6:
            d[lid] = v
        elif r < 0.7:
            d[lid] = {"np": v}
        elif r < 0.85:
            d[lid] = [v, v]
        else:
            d[lid] = {"B": [v, min(hi, v + rng.randint(0, 1))]}
    comp = refmodel.compounds(graph, top)
    if comp and rng.random() < name_compound_p:
        for c in rng.sample(comp, rng.randint(1, min(2, len(comp)))):
            d[c] = rng.choice([0, 1, [0, 1], {"B": [1, 1]}, [0, 0]])
            named_compound = True
    return d, named_compound


def pick_op(rng, entry, ctx):
    obj = entry["obj"]
    is_cfg = isinstance(obj, cc.StingyConfigurator)
    graph, top, info = adapters.graph_of(obj)
    ops = list(histops.PLOG_OPS) + (list(histops.CFG_OPS) * 2 if is_cfg else [])
    op = rng.choice(ops)
    named = False
    if op in ("evaluate", "evaluate_propositions", "assume"):
        d, named = rand_interp(rng, graph, top)
        args = [d]
    elif op == "to_ge_polyhedron":
        args = [rng.random() < 0.6, rng.random() < 0.3]          # (active, reduced)
    elif op == "solve":
        ids = [i for i in graph if i != top]
        if refmodel.box_size([graph[i]["b"] for i in ids], 1 << 14) > (1 << 14):
            return None
        args = [[{i: rng.randint(-3, 3) for i in rng.sample(ids, rng.randint(0, len(ids)))} for _ in range(rng.randint(1, 2))]]
    elif op == "select":
        ids = [i for i in graph if i != top]
        if len(ids) > 14:
            return None
        args = [[{rng.choice(ids): rng.choice([-2, -1, 1, 2]) for _ in range(rng.randint(0, 2))} for _ in range(rng.randint(1, 2))], rng.random() < 0.4]
    elif op == "select_builtin_solver":
        ids = [i for i in graph if i != top]
        if len(ids) > 14:
            return None
        prev = entry.setdefault("batches", [])
        if prev and rng.random() < 0.5:
            batch = list(rng.choice(prev))
            rng.shuffle(batch)                                  # the same requests as an earlier call, in another order
            if rng.random() < 0.3:
                batch = [{k_: -v_ if rng.random() < 0.5 else v_ + 1 for k_, v_ in p_.items()} for p_ in batch]      # ... or the same ids with other values
        else:
            batch = [{rng.choice(ids): rng.choice([-2, -1, 1, 2]) for _ in range(rng.randint(1, 2))} for _ in range(rng.randint(2, 3))]
            prev.append(batch)
        args = [batch, rng.random() < 0.4]
    elif op == "select_scribbling_solver":
        ids = [i for i in graph if i != top]
        if len(ids) > 14:
            return None
        batch = [({} if rng.random() < 0.5 else {rng.choice(ids): rng.choice([-2, -1, 1, 2])}) for _ in range(rng.randint(1, 2))]
        args = [batch, rng.random() < 0.4]
    elif op == "select_failing_solver":
        args = [rng.choice(["raise", "none"])]
    elif op == "add":
        cnt = [rng.randint(1000, 9999)]

        def idg():
            cnt[0] += 1
            return "A%d" % cnt[0]
        rule = recipes.strip(confgen.gen_rule(rng, confgen.ITEMS[:5], idg, p_id=0.5))
        wide = [i for i, n_ in graph.items() if n_["leaf"] and tuple(n_["b"]) != (0, 1)]
        if wide and rng.random() < 0.5:
            # the rule mentions, by id only, an item that this configurator declares with other bounds
            rule = {"k": "Imply", "id": None, "args": [{"k": "All", "id": None, "args": [{"k": "str", "id": rng.choice([i for i in graph if graph[i]["leaf"]])}]},
                                                        {"k": "AtLeast", "id": None, "args": [{"k": "str", "id": rng.choice(wide)}], "value": 1}]}
        args = [rule]
    else:
        args = []
    return op, args, named


# ------------------------------------------------------------------------------------------- state comparison
def bound_changes(old, new, path=()):
    """parallel walk of two state tuples. returns list of (path, node id, old bounds, new bounds) if the two trees differ
    *only* in variable bounds of compound nodes, else None"""
    if old == new:
        return []
    if not (isinstance(old, tuple) and isinstance(new, tuple)) or len(old) != len(new) or old[0] != new[0]:
        return None
    if old[0] != "node":
        return None
    # ("node", cls, id, bounds, sign, value, generated, default, prio, children)
    if old[1:3] != new[1:3] or old[4:9] != new[4:9] or len(old[9]) != len(new[9]):
        return None
    out = []
    if old[3] != new[3]:
        out.append((list(path), old[2], old[3], new[3]))
    for i, (a, b) in enumerate(zip(old[9], new[9])):
        r = bound_changes(a, b, path + (i,))
        if r is None:
            return None
        out.extend(r)
    return out


def run_case(case, ctx):
    rng = random.Random(case["seed"])
    from . import c14
    c14.clear_caches()          # nothing else is reset between cases or calls: the caches are part of what is observed
    live = []
    for b in case["bases"]:
        obj = recipes.build(b, {})
        if adapters.is_leaf(obj) or adapters.validated(obj) is None:
            continue
        live.append({"obj": obj, "orec": {"base": b, "rebinds": []}, "state": histops.object_state(obj)})
    if len(live) < 2:
        raise monitor.OutOfScope()
    ncfg = sum(isinstance(e["obj"], cc.StingyConfigurator) for e in live)
    if len(case["bases"]) >= 2 and case["bases"][0].get("id") == "main" and case["bases"][1].get("id") == "main" and \
            [a.get("id") for a in case["bases"][0]["args"]] == ["R", "S"]:
        ctx.count("count:twin-configurators")
    opseq = []
    touched = set()
    named_any = False
    script = list(case.get("script") or [])
    for step in range(max(case["steps"], len(script))):
        if script:
            k, op, args = script.pop(0)
            e = live[k]
            named = True
        else:
            k = rng.randrange(len(live))
            e = live[k]
            po = pick_op(rng, e, ctx)
            if po is None:
                continue
            op, args, named = po
        orec_before = copy.deepcopy(e["orec"])
        EPOCH[0] += 1
        del WRITES[:]
        d, derived, exc, full = histops.run_op(e["obj"], op, args)
        writes = sorted(set(WRITES))
        ctx.count("count:op:" + op)
        opseq.append((k, op))
        touched.add(k)
        if named:
            ctx.count("count:calls-naming-compound-id")
            named_any = True
        call = {"object": k, "op": op, "args": args, "history": opseq[-12:], "bases": case["bases"]}
        if op == "add" and "argument" in histops.LAST:
            a0, a1 = histops.LAST.pop("argument")
            ctx.judged("purity")
            if a0 != a1:
                ctx.violation("purity", dict(call, changed_object="the rule passed to add()", diff=digest.first_diff(a0[0], a1[0]) or "packed form changed"), {"writes": writes})
                return
        # ---- purity: every live object ------------------------------------------------------------------------
        for j, other in enumerate(live):
            new = histops.object_state(other["obj"])
            old = other["state"]
            if new == old:
                ctx.judged("purity")
                continue
            ch = bound_changes(old[0], new[0])
            facts = {"writes": writes}
            if ch and op in ("evaluate", "evaluate_propositions", "assume") and all(
                    cid in args[0] and tuple(nb[:2]) == histops.norm_interp_value(args[0][cid]) and tuple(nb[2:]) == ("int", "int")
                    for _, cid, ob, nb in ch) and \
                    all(w == ("variable", "AtLeast.assume") for w in writes):
                facts["mechanism"] = "assume-rebinds-named-node"
                other["orec"]["rebinds"] = other["orec"].get("rebinds", []) + [[p, list(nb[:2])] for p, cid, ob, nb in ch]
                other["state"] = new
                ctx.judged("purity")
                ctx.violation("purity", dict(call, changed_object=j, changes=[[p, str(cid), list(ob), list(nb)] for p, cid, ob, nb in ch]), facts)
                continue
            ctx.judged("purity")
            ctx.violation("purity", dict(call, changed_object=j, diff=digest.first_diff(old[0], new[0]) or "packed form (to_b64) changed while the public structure did not",
                                         bound_changes=ch), facts)
            return          # the object's state can no longer be modelled: stop this history
        # ---- independence: the pristine fork answers the same call ---------------------------------------------
        ans = FORK.query({"object": orec_before, "op": op, "args": args, "want_result": False})
        if "harness_error" in ans:
            ctx.count("fork-harness-error")
            ctx.note_inconclusive("pristine fork failed: " + ans["harness_error"][:200])
            return
        ctx.judged("history-independence")
        if ans["digest"] != d:
            ans2 = FORK.query({"object": orec_before, "op": op, "args": args, "want_result": True})
            ctx.violation("history-independence", dict(call, live_result=repr(full)[:700], pristine_result=repr(ans2.get("result"))[:700],
                                                       object_recipe=orec_before), {"op": op})
            return
        if derived is not None and not adapters.is_leaf(derived) and len(live) < 7:
            live.append({"obj": derived, "orec": {"derive": {"of": orec_before, "op": op, "args": args}, "rebinds": []},
                         "state": histops.object_state(derived)})
            ctx.count("count:derived-objects")
    if len(touched) >= 2 and (named_any or ncfg >= 2):
        ctx.nt(monitor.digest(opseq))
    ctx.sample({"bases": case["bases"][:2], "ops": opseq[:20], "live_objects": len(live)}, cap=3)
