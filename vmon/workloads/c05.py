"""C05 Negation is the exact complement and stays in solver-safe form.

Monitor: post-condition on the real AtLeast.negate and Not.__new__ (every call, nested ones included).
Oracle: reference truth of the *original* on its id graph (refmodel.truth) vs the library's evaluation
of the returned negation, on every assignment of a small leaf box or corners+samples of a large one;
solver-safe-form predicate on the id graphs; explicit id kept.
"""
import random

import puan
import puan.logic.plog as pg

from .. import adapters, monitor, reach, recipes, refmodel
from . import common

PROP = "C05"
RULE = ("cases: random recipes (all connectives, depth<=5, DAG sharing, integer leaves incl. int16 extremes, "
        "every value/sign combination, atoms-only/compounds-only/mixed children) negated via negate()/Not, "
        "plus double negation; every nested negate() call is judged too. non-trivial: the negated node has >=1 "
        "compound child and both truth values occurred among the judged assignments; distinct by canonical shape digest"
        ' Also: hostile twins, aliases, the bounded sweep of small formulas.')
BUDGET = {"quick": (12, 400, 90), "thorough": (16, 2200, 1200)}
PYTEST = True     # thorough tier also runs the repository's own tests under these monitors
MANDATORY = ["judged:complement", "judged:form", "judged:id-kept", "contract:AtLeast.negate", "contract:Not.__new__"]
ASSUMPTIONS = ["the original's truth value is the reference truth function on its id graph (C03 checks that the library agrees)"]

_n = 0


def _rng(ctx):
    global _n
    _n += 1
    return random.Random(ctx.seed * 1000003 + _n)


def negate_post(pre, args, kwargs, result):
    ctx = monitor.CTX
    self = args[0]
    if pre is None:
        raise monitor.OutOfScope()
    graph, top, info, explicit_id = pre
    judge_negation(ctx, graph, top, info, explicit_id, result, "negate")
    return True


GIVEN = [None]          # the object whose id the workload itself handed to the constructor (explicit whatever the object's own flag says)


def negate_snap(args, kwargs):
    self = args[0]
    v = adapters.validated(self)
    if v is None:
        return None
    graph, top, info = v
    return graph, top, info, (self.id if (not self.generated_id or self is GIVEN[0]) else None)


def not_snap(args, kwargs):
    prop = args[1] if len(args) > 1 else kwargs.get("proposition")
    if isinstance(prop, str):
        g = {prop: {"leaf": True, "b": (0, 1), "sign": 1, "value": 0, "ch": []}}
        return ("leaf", g, prop)
    if adapters.is_leaf(prop):
        g = {prop.id: {"leaf": True, "b": common.as_tuple(prop.bounds), "sign": 1, "value": 0, "ch": []}}
        return ("leaf", g, prop.id)
    v = adapters.validated(prop)
    if v is None:
        return None
    graph, top, info = v
    return ("comp", graph, top, info, (prop.id if (not prop.generated_id or prop is GIVEN[0]) else None))


def not_post(pre, args, kwargs, result):
    ctx = monitor.CTX
    if pre is None:
        raise monitor.OutOfScope()
    if pre[0] == "leaf":
        # Not(v) is the negation of "v >= 1" (the atom wrapped in All)
        _, g, lid = pre
        graph = dict(g)
        graph["__all__"] = {"leaf": False, "b": (0, 1), "sign": 1, "value": 1, "ch": [lid]}
        judge_negation(ctx, graph, "__all__", {"generated": {"__all__"}}, None, result, "Not")
    else:
        _, graph, top, info, explicit_id = pre
        judge_negation(ctx, graph, top, info, explicit_id, result, "Not")
    return True


def judge_negation(ctx, graph, top, info, explicit_id, result, via):
    ids, bounds = common.leaf_box(graph, top)
    order = refmodel.topo(graph, top)
    cap = common.point_cap(ctx.tier, 48, 400)
    cap = min(cap, max(6, 1500 // max(1, len(graph))))      # very deep models: every nested negate() is judged, keep the product bounded
    rng = _rng(ctx)
    seen_vals = set()
    bad = None
    npts = 0
    for x, _ex in refmodel.assignments(ids, bounds, rng, cap):
        want = 1 - refmodel.truth(graph, top, x, order=order)[top]
        got = common.const(result.evaluate(dict(x)))
        seen_vals.add(want)
        npts += 1
        if got != want:
            bad = (x, want, got)
            break
    n = graph[top]
    has_comp = any(not graph[c]["leaf"] for c in n["ch"])
    atoms = [c for c in n["ch"] if graph[c]["leaf"]]
    facts = {"via": via, "mixed": bool(has_comp and atoms), "value": n["value"], "sign": n["sign"],
             "atom_bounds": [list(graph[c]["b"]) for c in atoms]}
    ctx.judged("complement", max(npts - 1, 0))
    ctx.check(bad is None, "complement",
              lambda: {"original": graph_text(graph, top), "negated": adapters.model_text(result),
                       "assignment": bad[0], "expected": bad[1], "got": bad[2]}, facts)
    # solver-safe form is kept (boolean leaves)
    if refmodel.solver_safe(graph, top) and common.all_boolean(graph, top):
        g2, t2, _ = adapters.graph_of(result)
        ctx.check(refmodel.solver_safe(g2, t2), "form",
                  lambda: {"original": graph_text(graph, top), "negated": adapters.model_text(result)}, facts)
    else:
        ctx.count("form:not-applicable")
    # explicit id kept
    if explicit_id is not None:
        ctx.check(result.id == explicit_id and not getattr(result, "generated_id", False), "id-kept",
                  lambda: {"explicit": explicit_id, "got": result.id, "generated_flag": getattr(result, "generated_id", None)}, facts)
    else:
        ctx.count("id-kept:generated-id")
    if has_comp and len(seen_vals) == 2:
        ctx.nt(refmodel.shape_digest(graph, top))
    if has_comp and atoms:
        ctx.count("negated:mixed-children")
    ctx.sample({"original": graph_text(graph, top), "negated": adapters.model_text(result), "points": npts, "via": via})


def graph_text(graph, top):
    return [[nid, graph[nid]["sign"], graph[nid]["ch"], graph[nid]["value"], list(graph[nid]["b"])] for nid in refmodel.topo(graph, top)]


def install(ctx):
    reach.watch("negate.mixed-branch", pg.AtLeast.negate, "if len(compounds) < len(self.propositions)")
    reach.watch("negate.push-inward", pg.AtLeast.negate, "negated.sign = 1")
    monitor.attach(pg.AtLeast, "negate", negate_post, negate_snap)
    monitor.attach(pg.Not, "__new__", not_post, not_snap)


def gen_case(rng, tier, ctx, i):
    if rng.random() < 0.006:
        rec = common.deep_chain(rng, rng.randint(34, 40))        # very deep nesting
        ctx.count("count:deep-models")
        return {"recipe": rec, "via": rng.choice(["negate", "Not"])}
    if rng.random() < 0.15:
        from . import c04
        ctx.count("count:bounded-sweep-formulas")        # the deterministic enumeration of small formulas shared with C04
        return {"recipe": recipes.strip(c04.next_sweep(i, ctx.seed)), "via": rng.choice(["negate", "Not", "double"])}
    o = common.varied_opts(rng, tier)
    r = rng.random()
    if r < 0.35:
        # targeted: a node with atoms / compounds / mixed children and every value, sign
        o2 = recipes.Opts(depth=2, maxfan=3, nleaf=4, p_int=rng.choice([0, 0, 0.4]))
        pool = recipes.make_pool(rng, o2)
        idg = recipes.IdGen(rng)
        kind = rng.choice(["atoms", "comps", "mixed"])
        args = []
        if kind in ("atoms", "mixed"):
            args += [dict(l) for l in rng.sample(pool, rng.randint(1, min(3, len(pool))))]
        if kind in ("comps", "mixed"):
            for _ in range(rng.randint(1, 3)):
                args.append(recipes.gen_model(rng, o2, pool, idg, [], 1, top=False))
            if rng.random() < 0.12:
                # a sub-proposition without sub-propositions of its own is a constant (All() is 1, Any() is 0): it still counts in its parent
                args.append(rng.choice([{"k": "All", "id": None, "args": []}, {"k": "Any", "id": None, "args": []},
                                        {"k": "AtLeast", "id": None, "args": [], "value": rng.choice([0, 1]), "sign": rng.choice([1, -1])}]))
                ctx.count("count:childless-sub-proposition")
        n = len(args)
        rec = {"k": "AtLeast", "id": idg.next() if rng.random() < 0.5 else None, "args": args,
               "value": rng.randint(-3, n + 2), "sign": rng.choice([-1, 1, None])}
        if not recipes.refs_resolvable(rec):
            return None
        rec = recipes.strip(rec)
    else:
        rec = common.model_case(rng, tier, o)
        if rec is None:
            return None
    case = {"recipe": rec, "via": rng.choice(["negate", "Not", "double"])}
    if rng.random() < 0.06:
        case["explicit_generated"] = True
    return common.with_twins(rng, case)


def _run_one(case, ctx):
    GIVEN[0] = None
    if case.get("explicit_generated") and not case["recipe"].get("id") and case["recipe"]["k"] not in ("Not", "neg", "var", "str"):
        # the id is GIVEN by the caller, and happens to be the one the library would have generated for this content (e.g. a model rebuilt
        # under the id an earlier anonymous twin got): it is an explicitly given id all the same
        twin = recipes.fresh(case["recipe"])
        if not adapters.is_leaf(twin):
            case = dict(case, recipe=dict(case["recipe"], id=twin.id))
            ctx.count("count:explicit-id-equal-to-generated")
            m = recipes.fresh(case["recipe"])
            GIVEN[0] = m
    m = GIVEN[0] if GIVEN[0] is not None else recipes.fresh(case["recipe"])
    if adapters.is_leaf(m):
        raise monitor.OutOfScope()
    common.domain(m, recipe=case["recipe"])
    if case["via"] == "negate":
        ctx.call("negate", m.negate)
        import zlib
        h_ = zlib.crc32(repr(case["recipe"]).encode())
        if h_ % 2 == 0:
            # the same object negated again after a rule below its root was replaced in place by another one with the same id (the edited object is
            # itself a validated model): the second negation is the negation of the object as it is now
            from . import c01
            what = c01.redefine(m, random.Random(h_))
            if what is not None and adapters.validated(m) is not None:
                ctx.count("count:negated-edited-in-place-negated-again")
                ctx.call("negate", m.negate)
    elif case["via"] == "Not":
        ctx.call("Not", pg.Not, m)
    else:
        n1 = ctx.call("negate", m.negate)
        if adapters.validated(n1) is not None:
            ctx.call("negate", n1.negate)
        # Not on a bare leaf of the model
        g, top, _ = adapters.graph_of(m)
        lv = refmodel.leaves(g, top)
        if lv:
            lid = lv[0]
            ctx.call("Not", pg.Not, puan.variable(lid, bounds=tuple(g[lid]["b"])))


def run_case(case, ctx):
    """the base recipe, then its hostile twins (same ids, bounds/thresholds that collide under the library's hashes)"""
    for k, rec in enumerate(common.recipes_of(case)):
        sub = dict(case, recipe=rec)
        sub.pop("twins", None)
        if k:
            ctx.count("count:twin-runs")
        try:
            _run_one(sub, ctx)
        except monitor.OutOfScope:
            ctx.count("case:out_of_scope" if k == 0 else "twin:out_of_scope")
