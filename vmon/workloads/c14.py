"""C14 Configurator objectives realise choices over defaults over stinginess.

Observation point: the solver callable handed to StingyConfigurator.select (client boundary). A spy solver records
the objective vectors the library passes and the polyhedron; the checker enumerates every feasible 0/1 point of that
polyhedron and compares, on pairs of feasible points, the dot product with the recorded objective against the
lexicographic key written from the statement:
   (user priorities from the highest magnitude down: sum of sign*c over that level's columns,
    -(number of selected non-default-branch columns), -(number of selected remaining columns)).
Also: argmax of the objective over all feasible points == argmax of the key; the default priorities carry -2 on exactly
the non-default branches of defaulted Any/Xor rules (known from the recipe) and -1 elsewhere.
"""
import itertools
import random

import numpy
import puan
import puan.modules.configurator as cc
from puan.logic.plog import Any as pgAny
import puan.ndarray as pnd

from .. import adapters, monitor, recipes, refmodel
from . import common, confgen

PROP = "C14"
RULE = ("cases: configurators over 3-6 boolean items with 1-3 rules (plain and defaulted Any/Xor, AtMost, AtLeast, All, Imply(All|Any -> rule)), "
        "1-3 priority dictionaries per select() with 0-4 entries over item and helper ids, +-, ties and several levels; all feasible 0/1 points "
        "enumerated (<=16 columns), <=60 sampled points for pairs, all points for the argmax. non-trivial: >=2 feasible points with different "
        "keys; distinct by digest of (recipe, priorities)"
        ' Also: configurators read from harness-written JSON, defaulted rules nested under plain connectives, a rule replaced in place between two selects.')
BUDGET = {"quick": (12, 780, 90), "thorough": (16, 2000, 1200)}
MANDATORY = ["count:many-levels(weights beyond 2^53)", "judged:pair-order", "judged:argmax-set", "judged:default-prios", "count:with-defaults", "count:with-user-prios",
             "count:user-prio-on-helper", "count:negative-user-prio", "count:ties-in-user-prios", "count:built-from-json", "count:select-on-unpacked-polyhedron"]


def clear_caches():
    for name in ("ge_polyhedron", "leafs"):
        obj = cc.StingyConfigurator.__dict__.get(name)
        f = getattr(obj, "fget", obj)
        cl = getattr(f, "cache_clear", None)
        if cl:
            cl()


def expected_minus_two(cfg, recipe):
    """ids of the non-default branches, from the recipe's defaults and the object graph; None when ambiguous"""
    graph, top, info = adapters.graph_of(cfg)
    count = {}
    stack = [cfg]
    seen = set()
    while stack:
        n = stack.pop()
        if id(n) in seen:
            continue
        seen.add(id(n))
        count[n.id] = count.get(n.id, 0) + 1
        if not adapters.is_leaf(n):
            stack.extend(n.propositions)
    exp = set()
    for r in refmodel.recipe_nodes(recipe):
        if r["k"] in ("ccAny", "ccXor") and r.get("default"):
            d = r["default"][0]
            try:
                # alternatives that are rules themselves are named by the id they get when built on their own (explicit or generated from content)
                args = [a["id"] if a["k"] == "var" else recipes.fresh(a).id for a in r["args"]]
            except Exception:
                return None
            if d not in args or len(args) < 2:
                continue
            comp = sorted(a for a in args if a != d)
            found = [nid for nid, nd in graph.items() if not nd["leaf"] and sorted(nd["ch"]) == comp and nd["value"] == 1 and nd["sign"] == 1
                     and any((not p["leaf"]) and sorted(map(str, p["ch"])) == sorted([d, nid]) for p in graph.values())]
            if not found:
                return ("no-default-structure", r)          # a default among >= 2 plain alternatives always splits the rule into default + helper
            if len(found) != 1 or count.get(found[0], 0) != 1:
                return None
            exp.add(found[0])
    return exp


def key_fn(ids, dpv, prios):
    levels = sorted({abs(v) for k, v in prios.items() if v and k in ids}, reverse=True)
    idx = {i: j for j, i in enumerate(ids)}
    user_cols = {idx[k] for k, v in prios.items() if v and k in idx}
    rest = [j for j in range(len(ids)) if j not in user_cols]
    nd = [j for j in rest if dpv[j] == -2]
    plain = [j for j in rest if dpv[j] != -2]

    def key(c):
        k = []
        for lv in levels:
            k.append(sum((1 if prios[i] > 0 else -1) * int(c[idx[i]]) for i in prios if i in idx and abs(prios[i]) == lv))
        k.append(-sum(int(c[j]) for j in nd))
        k.append(-sum(int(c[j]) for j in plain))
        return tuple(k)
    return key


def judge(ctx, case, cfg, rec, prios_list):
    ids = rec["column_ids"][1:]
    feas = rec["feasible"]
    if feas is None:
        raise monitor.OutOfScope()
    poly = rec["polyhedron"]
    dpv = [int(v) for v in numpy.asarray(poly.default_prio_vector).tolist()]
    # default priorities: -2 exactly on the non-default branches
    exp2 = expected_minus_two(cfg, case["recipe"])
    if exp2 is None:
        ctx.count("default-prios:ambiguous(not judged)")
    elif isinstance(exp2, tuple):
        ctx.check(False, "default-prios", lambda: {"recipe": case["recipe"], "columns": ids, "default_prio_vector": dpv, "rule-without-its-default-structure": exp2[1],
                                                  "built": adapters.model_text(cfg)})
    else:
        want = [-2 if i in exp2 else -1 for i in ids]
        dp = cfg.default_prios
        ctx.check(dpv == want and all(dp.get(i) == w for i, w in zip(ids, want)), "default-prios",
                  lambda: {"recipe": case["recipe"], "columns": ids, "default_prio_vector": dpv, "expected": want, "default_prios": {str(k): v for k, v in dp.items()}})
        if exp2:
            ctx.count("count:with-defaults")
    if any(d not in (-1, -2) for d in dpv):
        raise monitor.OutOfScope()
    objs = rec["objectives"]
    if len(objs) != len(prios_list):
        ctx.check(False, "pair-order", lambda: {"recipe": case["recipe"], "prios": prios_list, "objectives": len(objs)})
        return
    rng = random.Random(case["seed"] + 1)
    for prios, w in zip(prios_list, objs):
        w = [int(x) for x in w.tolist()]
        if len(w) != len(ids):
            ctx.check(False, "pair-order", lambda: {"columns": ids, "objective_length": len(w)})
            continue
        if len(feas) == 0:
            ctx.count("infeasible-configurator")
            continue
        key = key_fn(ids, dpv, prios)
        pts = feas if len(feas) <= 60 else feas[rng.sample(range(len(feas)), 60)]
        ks = [key(p) for p in pts]
        ss = [sum(a * int(b) for a, b in zip(w, p)) for p in pts]
        bad = None
        n = 0
        for i, j in itertools.combinations(range(len(pts)), 2):
            n += 1
            if (ks[i] > ks[j]) != (ss[i] > ss[j]) or (ks[i] == ks[j]) != (ss[i] == ss[j]):
                bad = {"c1": dict(zip(ids, pts[i].tolist())), "c2": dict(zip(ids, pts[j].tolist())), "key1": ks[i], "key2": ks[j], "w.c1": ss[i], "w.c2": ss[j]}
                break
        if n:
            ctx.judged("pair-order", n - 1)
            ctx.check(bad is None, "pair-order", lambda: {"recipe": case["recipe"], "prios": prios, "columns": ids, "default_prio_vector": dpv, "objective": w, "bad": bad})
        allk = [key(p) for p in feas]
        alls = [sum(a * int(b) for a, b in zip(w, p)) for p in feas]
        bk, bs = max(allk), max(alls)
        A1 = {i for i, k in enumerate(allk) if k == bk}
        A2 = {i for i, s in enumerate(alls) if s == bs}
        ctx.check(A1 == A2, "argmax-set", lambda: {"recipe": case["recipe"], "prios": prios, "columns": ids, "objective": w,
                                                   "best_by_key": [feas[i].tolist() for i in sorted(A1)[:3]], "best_by_objective": [feas[i].tolist() for i in sorted(A2)[:3]]})
        if len(set(allk)) >= 2:
            ctx.nt(monitor.digest([case["recipe"], prios]))
        if prios:
            ctx.count("count:with-user-prios")
        if any(k in ids and not (k in "abcdefgh") for k in prios):
            ctx.count("count:user-prio-on-helper")
        if any(v < 0 for v in prios.values()):
            ctx.count("count:negative-user-prio")
        vals = [abs(v) for v in prios.values()]
        if len(vals) != len(set(vals)):
            ctx.count("count:ties-in-user-prios")
        ctx.sample({"recipe": case["recipe"], "prios": prios, "columns": ids, "default_prio_vector": dpv, "objective": w, "feasible_points": len(feas)})


def install(ctx):
    pass


def gen_case(rng, tier, ctx, i):
    if rng.random() < 0.012:
        # many priority levels with ties over a catalogue of items: the weights pass 2^53 and stay inside 64 bits
        return {"many_levels": list(rng.choice([(15, 15, 0), (16, 12, 0), (17, 10, 0), (18, 9, 0), (19, 8, 0), (21, 6, 0), (14, 14, 40), (15, 12, 40), (16, 10, 40), (18, 7, 40),
                                                (14, 13, 100), (15, 11, 100), (17, 8, 100), (19, 6, 100), (12, 10, 0), (10, 8, 40)])), "seed": rng.getrandbits(32)}
    rec = confgen.gen_config(rng)
    case = {"recipe": rec, "seed": rng.getrandbits(32), "nprios": rng.randint(1, 3), "route": rng.choice(["json", "ctor", "ctor", "b64", "ctor"])}
    if rng.random() < 0.2:
        # replacement for one rule: same explicit id, same kind of rule, another default / other alternatives
        idx = rng.randrange(len(rec["args"]))
        old = rec["args"][idx]
        if old["k"] in ("ccAny", "ccXor") and old.get("id") and old.get("default"):
            alt = [a["id"] for a in old["args"] if a["k"] == "var" and a["id"] != old["default"][0]]
            if alt:
                new = dict(old, default=[rng.choice(alt)])
                case["edit"] = {"index": idx, "rule": new}
    return case


def run_many_levels(case, ctx):
    """too many columns to enumerate: the objective the solver receives is judged on hand-made pairs of feasible points, in Python integers"""
    L, T, U = case["many_levels"]
    rng = random.Random(case["seed"])
    n = L * T
    items = ["x%03d" % k for k in range(n + U)]          # the last U items carry no priority of their own (they cost their default -1 each)
    order = list(range(n + U))
    rng.shuffle(order)
    level = {items[j]: pos // T + 1 for pos, j in enumerate(order[:n])}
    if (U + 2) * (T + 1) ** L >= 2 ** 62:          # the statement's proviso: the weights fit in 64 bits
        raise monitor.OutOfScope()
    cfg = cc.StingyConfigurator(pgAny(*items), id="catalogue")
    rec = {}
    prios = dict(level)
    ctx.call("select", lambda: list(cfg.select(prios, solver=confgen.exact_solver_factory(rec))))
    ids = rec["column_ids"][1:]
    M = rec["matrix"]
    w = [int(x) for x in rec["objectives"][0].tolist()]
    dpv = [int(v) for v in numpy.asarray(rec["polyhedron"].default_prio_vector).tolist()]
    key = key_fn(ids, dpv, prios)
    ctx.count("count:many-levels(weights beyond 2^53)")

    def point(sel):
        p = [1 if (i in sel or i not in items) else 0 for i in ids]       # helper columns (the rule itself) are true whenever something is selected
        ok = all(sum(int(a) * b for a, b in zip(row[1:], p)) >= int(row[0]) for row in M.tolist())
        return p if ok else None
    by_level = {}
    for i, lv in level.items():
        by_level.setdefault(lv, []).append(i)
    pairs = []
    for k in range(2, L + 1):
        one = {rng.choice(by_level[k])}
        below = {i for lv in range(1, k) for i in by_level[lv]}
        pairs.append((one, below))                                          # one item of a level against everything below it together
        pairs.append((one | {rng.choice(by_level[k - 1])}, one))
        a, b = rng.sample(by_level[k], 2)
        pairs.append(({a}, {b}))                                            # a tie
    for _ in range(40):
        pairs.append((set(rng.sample(items, rng.randint(1, 6))), set(rng.sample(items, rng.randint(1, 6)))))
    free = [i for i in items if i not in level]
    if free:
        top = {rng.choice(by_level[L])}
        pairs.append((top, top | set(free)))                                # unprioritised items only cost
        pairs.append(({rng.choice(by_level[1])} | set(free), set(free[:1])))
    bad = None
    nj = 0
    for s1, s2 in pairs:
        p1, p2 = point(s1), point(s2)
        if p1 is None or p2 is None:
            continue
        k1, k2 = key(p1), key(p2)
        v1, v2 = sum(a * b for a, b in zip(w, p1)), sum(a * b for a, b in zip(w, p2))
        nj += 1
        if (k1 > k2) != (v1 > v2) or (k1 == k2) != (v1 == v2):
            bad = {"selected_1": sorted(s1)[:14], "selected_2_count": len(s2), "levels_1": sorted(level.get(i, 0) for i in s1), "levels_2_max": max(level.get(i, 0) for i in s2),
                   "w.c1": v1, "w.c2": v2, "key_order": "c1>c2" if k1 > k2 else ("c1==c2" if k1 == k2 else "c1<c2")}
            break
    ctx.judged("pair-order", max(nj - 1, 0))
    ctx.check(nj > 0 and bad is None, "pair-order", lambda: {"many_levels": [L, T, U], "bad": bad, "largest_weight_bits": max(abs(x) for x in w).bit_length(),
                                                           "objective_dtype": str(rec["objectives"][0].dtype)})
    ctx.nt(monitor.digest(["many-levels", L, T, U]))


def run_case(case, ctx):
    if case.get("many_levels"):
        return run_many_levels(case, ctx)
    rng = random.Random(case["seed"])
    clear_caches()
    if case.get("route") == "json":
        import json
        ctx.count("count:built-from-json")
        cfg = ctx.call("StingyConfigurator.from_json", cc.StingyConfigurator.from_json, json.loads(json.dumps(confgen.config_json(case["recipe"]))))
    else:
        cfg = recipes.fresh(case["recipe"])
    how = random.Random(case["seed"] + 5).random()
    if how < 0.12:
        # the configurator a service works with is often a restored one (unpacked from its string, unpickled, deep-copied): same objective
        import copy
        import pickle
        import puan.logic.plog as pg_
        cfg = rng.choice([lambda c: pg_.from_b64(c.to_b64()), lambda c: pickle.loads(pickle.dumps(c)), copy.deepcopy])(cfg)
        ctx.count("count:restored-configurator")
    v = adapters.validated(cfg)
    if v is None:
        raise monitor.OutOfScope()
    graph, top, info = v
    ids = [i for i in refmodel.topo(graph, top) if i != top]
    if len(ids) > 16:
        raise monitor.OutOfScope()
    prios_list = []
    for _ in range(case["nprios"]):
        d = {}
        for _ in range(rng.randint(0, 4)):
            d[rng.choice(ids)] = rng.choice([-3, -2, -1, 1, 1, 2, 3])
        if rng.random() < 0.15:
            d["not-a-column"] = 2
        form = rng.random()
        if form < 0.1 and d:
            # priorities on a coarse scale (e.g. the time of the click in milliseconds: the most recent choice wins): only their order matters
            d = {k_: (1 if v_ > 0 else -1) * (1_700_000_000_000 + abs(v_) * 60_000) for k_, v_ in d.items()}
            ctx.count("count:huge-user-prios")
        elif form < 0.25 and d:
            # priorities that were computed (ranks from numpy): numpy integers are integers
            d = {k_: rng.choice([numpy.int64, numpy.int8, numpy.int32])(v_) for k_, v_ in d.items()}
            ctx.count("count:numpy-integer-user-prios")
        prios_list.append(d)
    rec = {}
    spy = confgen.exact_solver_factory(rec)
    if case.get("route") == "b64":
        # the configured polyhedron after a base64 round trip is what a service would solve on
        ctx.count("count:select-on-unpacked-polyhedron")
        packed = ctx.call("to_b64", lambda: cfg.ge_polyhedron.to_b64())
        unpacked = ctx.call("from_b64", pnd.ge_polyhedron_config.from_b64, packed)
        res = ctx.call("select", lambda: list(unpacked.select(*[dict(p) for p in prios_list], solver=spy)))
    else:
        res = ctx.call("select", lambda: list(cfg.select(*[dict(p) for p in prios_list], solver=spy)))
    if "objectives" not in rec:
        ctx.check(False, "pair-order", lambda: {"recipe": case["recipe"], "note": "solver callable was never invoked"})
        return
    judge(ctx, case, cfg, rec, prios_list)
    # the same configurator object after one of its rules was replaced in place by a rule with the same id: the objective
    # must be the one of the configurator as it is now
    edit = case.get("edit")
    if edit is not None and edit["index"] < len(case["recipe"]["args"]):
        new_recipe = dict(case["recipe"], args=list(case["recipe"]["args"]))
        new_recipe["args"][edit["index"]] = edit["rule"]
        fresh2 = recipes.fresh(new_recipe)
        if adapters.validated(fresh2) is None:
            return
        target = case["recipe"]["args"][edit["index"]]
        pos = [i for i, p_ in enumerate(cfg.propositions) if p_.id == recipes.fresh(target).id]
        if len(pos) != 1:
            return
        cfg.propositions[pos[0]] = recipes.fresh(edit["rule"])
        cfg.propositions.sort()
        if digest_state(cfg) != digest_state(fresh2):
            return
        ctx.count("count:in-place-rule-replacement")
        rec2 = {}
        ctx.call("select", lambda: list(cfg.select(*[dict(p) for p in prios_list], solver=confgen.exact_solver_factory(rec2))))
        if "objectives" in rec2:
            judge(ctx, dict(case, recipe=new_recipe), cfg, rec2, prios_list)


def digest_state(obj):
    from .. import digest
    return digest.state(obj)
