"""C02 Integer solutions of the polyhedron are exactly the satisfying configurations.

Monitor: post-condition on the real AtLeast.to_ge_polyhedron(active=True). For every judged leaf assignment x
*all* 0/1 completions of the auxiliary (sub-proposition) columns are enumerated (vectorised):
 completeness  truth(x)=1  =>  some completion satisfies A p >= b         (no valid configuration is lost)
 soundness     model in solver-safe form and truth(x)=0  =>  no completion satisfies A p >= b
Solver-safe form is decided on the id graph exactly as the statement defines it.
"""
import itertools
import random

import numpy
import puan.logic.plog as pg

from .. import adapters, monitor, recipes, refmodel
from . import common, c01

PROP = "C02"
RULE = ("cases: random recipes biased to small leaf boxes, half of them built through negate()/Not/Imply/XNor so that "
        "the inward-pushed forms feed the soundness clause; per leaf point all 2^k auxiliary completions are enumerated "
        "(k<=14, otherwise the canonical completion plus 4096 random ones, counted as sampled). non-trivial: >=1 auxiliary "
        "column and both truth values occurred; distinct by canonical shape digest"
        ' Also: hostile twins, aliases and the bounded sweep of small formulas.')
BUDGET = {"quick": (12, 1050, 90), "thorough": (16, 2500, 1200)}
PYTEST = True     # thorough tier also runs the repository's own tests under these monitors
MANDATORY = ["judged:completeness", "judged:soundness-safe", "contract:AtLeast.to_ge_polyhedron", "count:safe-models", "count:unsafe-models"]
KMAX = 14

_n = 0


def _rng(ctx):
    global _n
    _n += 1
    return random.Random(ctx.seed * 1000003 + _n)


def completions(k, rng):
    if k == 0:
        return numpy.zeros((1, 0), dtype=numpy.int64), True
    if k <= KMAX:
        return numpy.array(list(itertools.product((0, 1), repeat=k)), dtype=numpy.int64).reshape(-1, k), True
    return numpy.array([[rng.randint(0, 1) for _ in range(k)] for _ in range(4096)], dtype=numpy.int64), False


def poly_post(pre, args, kwargs, result):
    ctx = monitor.CTX
    if pre is None:
        raise monitor.OutOfScope()
    active, reduced = c01.parse_call(args, kwargs)
    if reduced or not active:
        raise monitor.OutOfScope()
    graph, top, info = pre
    ids, bnds, A, b = c01.read_polyhedron(result)
    body = ids[1:]
    if any(c not in graph for c in body):
        ctx.check(False, "columns", lambda: {"columns": ids, "model": c01.gtext(graph, top)})
        return True
    leaf_cols = [j for j, c in enumerate(body) if graph[c]["leaf"]]
    aux_cols = [j for j, c in enumerate(body) if not graph[c]["leaf"]]
    lids, lb = common.leaf_box(graph, top)
    ok_cols = set(body[j] for j in leaf_cols) == set(lids) and all(bnds[1 + j] == (0, 1) for j in aux_cols)
    ctx.check(ok_cols, "columns", lambda: {"columns": ids, "bounds": bnds, "leaves": lids})
    if not ok_cols:
        return True
    # int64 is safe: |coefficients| and values are bounded by int16 ranges times the number of columns
    A64 = numpy.array(A, dtype=numpy.int64).reshape(len(b), len(body))
    b64 = numpy.array(b, dtype=numpy.int64)
    safe = refmodel.solver_safe(graph, top)
    ctx.count("count:safe-models" if safe else "count:unsafe-models")
    rng = _rng(ctx)
    comp, all_comp = completions(len(aux_cols), rng)
    ctx.count("aux:exhaustive" if all_comp else "aux:sampled")
    order = refmodel.topo(graph, top)
    cap = common.point_cap(ctx.tier, 32, 256)
    seen = set()
    lost = unsound = None
    n1 = n0 = 0
    for x, _ex in refmodel.assignments(lids, lb, rng, cap):
        val = refmodel.truth(graph, top, x, order=order)
        t = val[top]
        seen.add(t)
        pts = numpy.zeros((len(comp) + 1, len(body)), dtype=numpy.int64)
        for j in leaf_cols:
            pts[:, j] = x[body[j]]
        if aux_cols:
            pts[:-1, aux_cols] = comp
            pts[-1, aux_cols] = [val[body[j]] for j in aux_cols]      # the canonical completion
        feas = ((pts @ A64.T) >= b64).all(axis=1)
        anyf = bool(feas.any())
        if t == 1:
            n1 += 1
            if not anyf and lost is None:
                lost = {"x": x}
        else:
            if safe:
                n0 += 1
                if anyf and unsound is None:
                    k = int(numpy.argmax(feas))
                    unsound = {"x": x, "completion": dict(zip([body[j] for j in aux_cols], pts[k, aux_cols].tolist()))}
            elif anyf:
                ctx.count("unsafe-model:false-point-feasible(allowed)")
    if n1:
        ctx.judged("completeness", n1 - 1)
        ctx.check(lost is None, "completeness", lambda: {"model": c01.gtext(graph, top), "lost": lost, "columns": ids, "A": A, "b": b})
    if n0:
        ctx.judged("soundness-safe", n0 - 1)
        ctx.check(unsound is None, "soundness-safe", lambda: {"model": c01.gtext(graph, top), "unsound": unsound, "columns": ids, "A": A, "b": b})
    if aux_cols and len(seen) == 2:
        ctx.nt(refmodel.shape_digest(graph, top))
    ctx.sample({"model": c01.gtext(graph, top), "solver_safe": safe, "aux_columns": len(aux_cols), "completions": len(comp), "true_points": n1, "false_points_judged": n0})
    return True


def cfg_post(pre, args, kwargs, result):
    return poly_post(pre, (args[0], True, False), {}, result)


def install(ctx):
    import puan.modules.configurator as cc
    monitor.attach(pg.AtLeast, "to_ge_polyhedron", poly_post, c01.snap)
    monitor.attach(cc.StingyConfigurator, "ge_polyhedron", cfg_post, c01.snap, label="StingyConfigurator.ge_polyhedron")


def gen_case(rng, tier, ctx, i):
    if rng.random() < 0.12:
        return c01.gen_case(random.Random(rng.getrandbits(32)), tier, ctx, i) if False else _cfg_case(rng)
    if rng.random() < 0.12:
        from . import c04
        ctx.count("count:bounded-sweep-formulas")
        return {"recipe": recipes.strip(c04.next_sweep(i, ctx.seed))}
    o = common.varied_opts(rng, tier, p_int=0.2, p_big=0.05, p_window=0.15)
    if rng.random() < 0.5:
        o.kinds = ["Imply", "Not", "XNor", "All", "Any", "AtLeast", "AtMost", "Xor"]
    rec = common.model_case(rng, tier, o)
    if rec is None:
        return None
    if rng.random() < 0.3 and rec["k"] != "Not":
        rec = {"k": rng.choice(["neg", "Not"]), "id": None, "args": [rec]}
    return common.with_twins(rng, {"recipe": rec})


def _run_one(case, ctx):
    m = recipes.fresh(case["recipe"])
    if adapters.is_leaf(m):
        raise monitor.OutOfScope()
    common.domain(m, recipe=case["recipe"])
    import zlib
    pre = zlib.crc32(repr(case["recipe"]).encode()) % 4
    if pre == 0:
        # the object has already been converted in the un-asserted form (the documented default) before the asserted one is asked for
        ctx.count("count:asserted-after-default-conversion")
        try:
            with monitor.guard():
                m.to_ge_polyhedron()
        except Exception:
            pass
    if case.get("configurator"):
        ctx.count("count:configurator-polyhedra")
        ctx.call("ge_polyhedron", lambda: m.ge_polyhedron)
        return
    ctx.call("to_ge_polyhedron(True)", m.to_ge_polyhedron, True)


def _cfg_case(rng):
    from . import confgen
    rec = confgen.gen_config(rng)
    if rng.random() < 0.7:
        rec["args"].append(confgen.V(rng.choice(confgen.ITEMS[:4])) if rng.random() < 0.5 else {"k": "Not", "id": None, "args": [confgen.V(rng.choice(confgen.ITEMS[:4]))]})
        inner = {"k": "All", "id": None, "args": [{"k": "Not", "id": None, "args": [confgen.V(x)]} for x in rng.sample(confgen.ITEMS[:5], 2)]}
        rec["args"].append({"k": "Imply", "id": None, "args": [inner, confgen.V(rng.choice(confgen.ITEMS[:5]))]})
    return {"recipe": rec, "configurator": True}


def run_case(case, ctx):
    """the base recipe, then its hostile twins (same ids, bounds/thresholds that collide under the library's hashes)"""
    for k, rec in enumerate(common.recipes_of(case)):
        sub = dict(case, recipe=rec)
        sub.pop("twins", None)
        if k:
            ctx.count("count:twin-runs")
        try:
            _run_one(sub, ctx)
        except monitor.OutOfScope:
            ctx.count("case:out_of_scope" if k == 0 else "twin:out_of_scope")
