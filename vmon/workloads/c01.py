"""C01 Logic-to-polyhedron encoding agrees with evaluation on every assignment.

Monitor: post-condition on the real AtLeast.to_ge_polyhedron. For the returned polyhedron P and the id graph of
the receiver (snapshotted before the call), every judged leaf assignment x is extended with the *reference*
truth value of every sub-proposition and `A_P [x;v] >= b_P` is evaluated in Python ints:
active=True  -> feasible  <=>  truth(top) = 1 ; active=False -> always feasible.
Also: support column is id 0 with bounds (1,1), every other column is a node of the model with that node's bounds,
every node has exactly one column.
"""
import random

import numpy
import puan
import puan.logic.plog as pg

from .. import adapters, monitor, recipes, refmodel
from . import common

PROP = "C01"
RULE = ("cases: random recipes (all connectives, depth<=5, fan-out<=8, DAG sharing by identity and by equal copy, "
        "integer leaves incl. int16 extremes, odd ids) converted with active=True and active=False; leaf boxes with "
        "<=cap points are enumerated completely, larger ones by corners + boundary-biased samples. non-trivial: the "
        "model has >=1 compound child and both truth values occurred among the judged assignments; distinct by "
        "canonical shape digest"
        ' Also: hostile twins of the base recipe run in the same process, the same definition through another class (aliases), leaves wider than 32 bits, and the bounded sweep of small formulas shared with C04.')
BUDGET = {"quick": (12, 1350, 90), "thorough": (16, 2500, 1200)}
PYTEST = True     # thorough tier also runs the repository's own tests under these monitors
MANDATORY = ["judged:active-iff-true", "judged:inactive-feasible", "judged:columns", "contract:AtLeast.to_ge_polyhedron", "contract:StingyConfigurator.ge_polyhedron", "count:evaluated-then-converted"]

_n = 0


def _rng(ctx):
    global _n
    _n += 1
    return random.Random(ctx.seed * 1000003 + _n)


def snap(args, kwargs):
    self = args[0]
    v = adapters.validated(self)
    if v is None:
        return None
    return v


def parse_call(args, kwargs):
    active = args[1] if len(args) > 1 else kwargs.get("active", False)
    reduced = args[2] if len(args) > 2 else kwargs.get("reduced", False)
    return bool(active), bool(reduced)


def read_polyhedron(P):
    """-> (column ids incl. support, bounds per column, A as object array, b as list of ints)"""
    M = numpy.asarray(P)
    cols = list(P.variables)
    ids = [v.id for v in cols]
    bnds = [common.as_tuple(v.bounds) for v in cols]
    A = [[int(v) for v in row[1:]] for row in M.tolist()]
    b = [int(row[0]) for row in M.tolist()]
    return ids, bnds, A, b


def feasible(A, b, vec):
    for row, bi in zip(A, b):
        if sum(a * v for a, v in zip(row, vec) if a) < bi:
            return False
    return True


def check_columns(ctx, graph, top, P, ids, bnds, active):
    problems = []
    if not ids or ids[0] != 0 or bnds[0] != (1, 1):
        problems.append(("support", ids[:1], bnds[:1]))
    body = ids[1:]
    if len(set(body)) != len(body):
        problems.append(("duplicate-column",))
    for cid, cb in zip(body, bnds[1:]):
        if cid not in graph:
            problems.append(("unknown-column", cid))
        elif tuple(graph[cid]["b"]) != cb:
            problems.append(("column-bounds", cid, cb, graph[cid]["b"]))
    reach = set(refmodel.topo(graph, top))
    # with the top node asserted its own column is not needed (the library drops it)
    missing = [i for i in reach if i not in set(body) and not (active and i == top)]
    if missing:
        problems.append(("node-without-column", missing[:4]))
    ncols = numpy.asarray(P).shape[1] if numpy.asarray(P).ndim == 2 else -1
    if ncols != len(ids):
        problems.append(("shape", ncols, len(ids)))
    ctx.check(not problems, "columns", lambda: {"model": gtext(graph, top), "problems": problems, "columns": ids})
    return not problems


def gtext(graph, top):
    return [[nid, graph[nid]["sign"], graph[nid]["ch"], graph[nid]["value"], list(graph[nid]["b"])] for nid in refmodel.topo(graph, top)]


def poly_post(pre, args, kwargs, result):
    ctx = monitor.CTX
    if pre is None:
        raise monitor.OutOfScope()
    active, reduced = parse_call(args, kwargs)
    if reduced:
        raise monitor.OutOfScope()
    graph, top, info = pre
    ids, bnds, A, b = read_polyhedron(result)
    if not check_columns(ctx, graph, top, result, ids, bnds, active):
        return True
    lids, lb = common.leaf_box(graph, top)
    order = refmodel.topo(graph, top)
    cap = common.point_cap(ctx.tier, 48, 400)
    if ctx.case is None:
        cap = 16                      # calls observed while the repository's own tests run
    rng = _rng(ctx)
    seen = set()
    bad = None
    n = 0
    exhaustive = False
    for x, ex in refmodel.assignments(lids, lb, rng, cap):
        exhaustive = ex
        val = refmodel.truth(graph, top, x, order=order)
        vec = [val[c] for c in ids[1:]]   # the assignment extended with every sub-proposition's truth value
        f = feasible(A, b, vec)
        seen.add(val[top])
        n += 1
        want = (val[top] == 1) if active else True
        if f != want:
            bad = {"x": x, "truth": val[top], "feasible": f, "active": active}
            break
    sub = "active-iff-true" if active else "inactive-feasible"
    ctx.judged(sub, max(n - 1, 0))
    ctx.check(bad is None, sub, lambda: {"model": gtext(graph, top), "bad": bad, "columns": ids, "A": A, "b": b})
    ctx.count("boxes:exhaustive" if exhaustive else "boxes:sampled")
    has_comp = any(not graph[c]["leaf"] for c in graph[top]["ch"])
    if has_comp and len(seen) == 2:
        ctx.nt(refmodel.shape_digest(graph, top))
    ctx.sample({"model": gtext(graph, top), "active": active, "columns": ids, "rows": len(b), "points": n})
    return True


def cfg_post(pre, args, kwargs, result):
    """StingyConfigurator.ge_polyhedron is 'the system produced for the model (top node asserted)' of a configurator"""
    return poly_post(pre, (args[0], True, False), {}, result)


def install(ctx):
    import puan.modules.configurator as cc
    monitor.attach(pg.AtLeast, "to_ge_polyhedron", poly_post, snap)
    monitor.attach(cc.StingyConfigurator, "ge_polyhedron", cfg_post, snap, label="StingyConfigurator.ge_polyhedron")


def gen_case(rng, tier, ctx, i):
    if rng.random() < 0.025:
        rec = common.deep_chain(rng, rng.randint(34, 46))        # very deep nesting
        ctx.count("count:deep-models")
        return {"recipe": rec}
    if rng.random() < 0.1:
        from . import confgen
        rec = confgen.gen_config(rng)
        if rng.random() < 0.6:
            # a mandatory item / a forbidden item next to rules with nested negations
            rec["args"].append(confgen.V(rng.choice(confgen.ITEMS[:4])) if rng.random() < 0.5 else {"k": "Not", "id": None, "args": [confgen.V(rng.choice(confgen.ITEMS[:4]))]})
            inner = {"k": "All", "id": None, "args": [{"k": "Not", "id": None, "args": [confgen.V(x)]} for x in rng.sample(confgen.ITEMS[:5], 2)]}
            rec["args"].append({"k": "Imply", "id": None, "args": [inner, confgen.V(rng.choice(confgen.ITEMS[:5]))]})
        return {"recipe": rec, "configurator": True}
    if rng.random() < 0.12:
        from . import c04
        ctx.count("count:bounded-sweep-formulas")
        return {"recipe": recipes.strip(c04.next_sweep(i, ctx.seed))}
    if rng.random() < 0.03:
        from . import c03
        return {"recipe": c03.special_case(rng, ctx)["recipe"]}        # thresholds of large magnitude; sub-propositions without sub-propositions of their own
    o = common.varied_opts(rng, tier, p_huge=0.08)
    rec = common.model_case(rng, tier, o)
    if rec is None:
        return None
    case = {"recipe": rec}
    if rng.random() < 0.15:
        case["redefine"] = rng.getrandbits(32)        # a named rule over leaves is replaced in place by another rule with the same id between two conversions
    return common.with_twins(rng, case)


def redefine(m, rng):
    """replace, in the live object, one explicitly named sub-proposition over leaves by another definition over the same leaves with the same id
    (the idiom the configurator's Xor uses itself: parent.propositions[i] = ...). Returns a description or None when the model has no such node."""
    import puan.logic.plog as pg
    cands, stack, seen, seen_objs = [], [m], set(), []
    while stack:
        n = stack.pop()
        if id(n) in seen:
            continue
        seen.add(id(n))
        seen_objs.append(n)
        for i, c in enumerate(n.propositions):
            if adapters.is_leaf(c):
                continue
            stack.append(c)
            if not c.generated_id and len(c.propositions) >= 2 and all(adapters.is_leaf(x) for x in c.propositions):
                cands.append((n, i, c))
    if rng.random() < 0.35:
        # another in-place edit: a further leaf is appended to the children of some sub-proposition (its threshold stays): "all of n" becomes
        # "n of n+1" for evaluation and validation alike, and the conversion is about the object as it is now
        comps = [x for x in seen_objs if not adapters.is_leaf(x) and len(x.propositions) >= 1]
        if comps:
            tgt = rng.choice(comps)
            tgt.propositions.append(puan.variable("zz9"))
            tgt.propositions.sort()
            return {"node": tgt.id, "appended": "zz9", "value": int(tgt.value), "children_now": len(tgt.propositions)}
    if not cands:
        return None
    n, i, c = rng.choice(cands)
    leaves = list(c.propositions)
    options = [(1, 1), (1, len(leaves)), (-1, -1), (1, 2), (-1, 0)]
    options = [o for o in options if o != (c.sign, c.value)]
    sign, value = rng.choice(options)
    n.propositions[i] = pg.AtLeast(value, leaves, variable=c.id, sign=puan.Sign(sign))
    return {"node": c.id, "was": [int(c.sign), int(c.value)], "now": [sign, value]}


def _run_one(case, ctx):
    m = recipes.fresh(case["recipe"])
    if adapters.is_leaf(m):
        raise monitor.OutOfScope()
    graph, top, info = common.domain(m, recipe=case["recipe"])
    import zlib
    if zlib.crc32(repr(case["recipe"]).encode()) % 3 == 0:
        # a model that has already been evaluated at a point (leaf values only) is converted afterwards: the system is about the declared box
        import random
        r_ = random.Random(zlib.crc32(repr(case["recipe"]).encode()))
        lids, lb = common.leaf_box(graph, top)
        x = {i: r_.randint(int(lo), int(hi)) for i, (lo, hi) in zip(lids, lb)}
        ctx.call("evaluate_propositions", m.evaluate_propositions, x)
        ctx.count("count:evaluated-then-converted")
        common.domain(m, recipe=case["recipe"])
    ctx.call("to_ge_polyhedron(False)", m.to_ge_polyhedron, active=False)
    ctx.call("to_ge_polyhedron()", m.to_ge_polyhedron)          # the documented default is the un-asserted system
    if case.get("configurator"):
        ctx.count("count:configurator-polyhedra")
        ctx.call("ge_polyhedron", lambda: m.ge_polyhedron)
    if case.get("redefine") is not None:
        import random
        what = redefine(m, random.Random(case["redefine"]))
        if what is None:
            ctx.count("redefine:no-named-rule-over-leaves")
            return
        common.domain(m)                      # the edited object is itself a validated model (else out of scope)
        ctx.count("count:redefined-in-place-then-converted")
        ctx.call("to_ge_polyhedron(True)", m.to_ge_polyhedron, True)
        ctx.call("to_ge_polyhedron(False)", m.to_ge_polyhedron, active=False)


def run_case(case, ctx):
    """the base recipe, then its hostile twins (same ids, bounds/thresholds that collide under the library's hashes)"""
    for k, rec in enumerate(common.recipes_of(case)):
        sub = dict(case, recipe=rec)
        sub.pop("twins", None)
        if k:
            ctx.count("count:twin-runs")
        try:
            _run_one(sub, ctx)
        except monitor.OutOfScope:
            ctx.count("case:out_of_scope" if k == 0 else "twin:out_of_scope")
