"""C15 Solver bridge: objectives, solutions and ids stay aligned.

Recorded client-boundary history of one solve()/select() call:
  {objectives given, polyhedron + objective vectors received by the solver callable, vectors it returned,
   dictionaries the library reported}
and an offline checker over that history (alignment of columns and ids, documented filters, None -> {}, solver
exception -> InfeasibleError from select, optimality and model satisfaction with the harness's exact solver).
Faults are injected at the boundary: None solutions, exceptions of several types, a generator instead of a list.
"""
import random

import numpy
import puan
import puan.logic.plog as pg
import puan.modules.configurator as cc
import puan.ndarray as pnd

from .. import adapters, monitor, recipes, refmodel
from . import common, confgen, c14

PROP = "C15"
RULE = ("cases: plog models (boolean and small integer leaves, explicit and generated ids) through solve(objectives, solver=...) with "
        "include_virtual_variables on/off, and configurators through select(*prios, solver=..., only_leafs on/off); objectives over leaf and "
        "helper ids incl. unknown ids; injected faults: None for some objectives, ValueError/RuntimeError/custom exception, generator result. "
        "non-trivial: >=2 columns with different objective entries and an optimum that is not all-zero; distinct by digest of (recipe, objectives, flags)"
        ' Also: configurator rows with coefficients beyond 32 bits.')
BUDGET = {"quick": (12, 780, 90), "thorough": (16, 2500, 1200)}
MANDATORY = ["judged:solve:polyhedron-is-asserted-model", "judged:solve:objective-alignment", "judged:solve:reported-dict", "judged:solve:optimal",
             "judged:solve:satisfies-model(solver-safe)", "judged:solve:none->{}", "judged:select:polyhedron-is-own", "judged:select:reported-dict",
             "judged:select:only_leafs", "judged:select:none->{}", "judged:select:exception->InfeasibleError", "judged:select:optimal",
             "count:include_virtual_variables", "count:generator-result", "count:try_reduce_before"]


class CustomSolverError(Exception):
    pass


def polys_equal(P, Q):
    return numpy.array_equal(numpy.asarray(P), numpy.asarray(Q)) and [v.id for v in P.variables] == [v.id for v in Q.variables] and \
        [v.bounds.as_tuple() for v in P.variables] == [v.bounds.as_tuple() for v in Q.variables]


def as_gen(solver):
    def g(poly, objs):
        return (x for x in solver(poly, objs))
    return g


# ------------------------------------------------------------------------------------------- solve
def run_solve(case, ctx):
    rng = random.Random(case["seed"])
    m = recipes.fresh(case["recipe"])
    if adapters.is_leaf(m):
        raise monitor.OutOfScope()
    graph, top, info = common.domain(m)
    red = bool(case.get("reduce"))
    # try_reduce_before: the solver is handed the reduced form of the asserted polyhedron; ids, objectives and reported values pair with ITS columns
    ref_poly = recipes.fresh(case["recipe"]).to_ge_polyhedron(True, reduced=True) if red else recipes.fresh(case["recipe"]).to_ge_polyhedron(True)
    if red:
        ctx.count("count:try_reduce_before")
    col_ids = [v.id for v in ref_poly.variables][1:]
    bounds = [v.bounds.as_tuple() for v in ref_poly.variables][1:]
    if refmodel.box_size(bounds, 1 << 17) > (1 << 17):
        raise monitor.OutOfScope()
    explicit = {n["id"] for n in refmodel.recipe_nodes(case["recipe"]) if n.get("id") and n["k"] not in ("var", "str")}
    leaf_ids = set(refmodel.leaves(graph, top))
    objs = []
    for _ in range(rng.randint(1, 3)):
        o = {i: rng.randint(-5, 5) for i in rng.sample(col_ids, rng.randint(0, len(col_ids)))}
        if rng.random() < 0.3:
            o["nope"] = 9
        objs.append(o)
    faults = {}
    if rng.random() < 0.35:
        faults[rng.randrange(len(objs))] = "none"
    inc = rng.random() < 0.5
    rec = {}
    solver = confgen.exact_solver_factory(rec, faults)
    if rng.random() < 0.2:
        solver = as_gen(solver)
        ctx.count("count:generator-result")
    if inc:
        ctx.count("count:include_virtual_variables")
    form = random.Random(case["seed"] + 3).random()
    if form < 0.25:
        mk_objs = rng.choice([lambda: (dict(o) for o in objs), lambda: map(dict, objs), lambda: iter([dict(o) for o in objs]), lambda: tuple(dict(o) for o in objs)])
        ctx.count("count:objectives-as-iterable")
    else:
        mk_objs = lambda: [dict(o) for o in objs]
    res = ctx.call("solve", lambda: list(m.solve(mk_objs(), solver=solver, include_virtual_variables=inc, **({"try_reduce_before": True} if red else {}))))
    h = {"api": "solve", "recipe": case["recipe"], "objectives_given": objs, "include_virtual_variables": inc, "try_reduce_before": red, "faults": {str(k): str(v) for k, v in faults.items()}}
    if "objectives" not in rec:
        ctx.check(False, "solve:polyhedron-is-asserted-model", lambda: dict(h, note="solver callable never invoked"))
        return
    h.update(columns_received=rec["column_ids"], objectives_received=[o.tolist() for o in rec["objectives"]],
             returned=[None if r[0] is None else r[0].tolist() for r in rec["returned"]], reported=[{str(k): int(v) for k, v in r[0].items()} for r in res])
    ctx.check(polys_equal(rec["polyhedron"], ref_poly), "solve:polyhedron-is-asserted-model",
              lambda: dict(h, expected_matrix=numpy.asarray(ref_poly).tolist(), got_matrix=rec["matrix"].tolist(), expected_columns=[0] + col_ids))
    ids = rec["column_ids"][1:]
    ok = len(rec["objectives"]) == len(objs)
    bad = None
    if ok:
        for o, w in zip(objs, rec["objectives"]):
            exp = [o.get(i, 0) for i in ids]
            if [int(x) for x in w.tolist()] != exp:
                bad = {"given": o, "received": w.tolist(), "expected": exp}
                break
    ctx.check(ok and bad is None, "solve:objective-alignment", lambda: dict(h, bad=bad))
    if len(res) != len(rec["returned"]):
        ctx.check(False, "solve:reported-dict", lambda: dict(h, note="number of results"))
        return
    safe = refmodel.solver_safe(graph, top)
    feas = rec["feasible"]
    for k, ((sol, ov, sc), (vec, ov2, sc2), o) in enumerate(zip(res, rec["returned"], objs)):
        if vec is None:
            ctx.check(sol == {}, "solve:none->{}", lambda: dict(h, index=k, got=repr(sol)))
            continue
        exp = {}
        for i, val in zip(ids, vec.tolist()):
            if i in leaf_ids or i in explicit or inc:
                exp[i] = int(val)
        got = {kk: int(vv) for kk, vv in sol.items()}
        ctx.check(got == exp, "solve:reported-dict", lambda: dict(h, index=k, expected=exp, got=got, explicit_ids=sorted(explicit)))
        # optimality of what is reported, for the weights that were asked for
        if feas is not None and len(feas):
            w = numpy.array([o.get(i, 0) for i in ids], dtype=numpy.int64)
            best = int((feas @ w).max())
            full = dict(zip(ids, vec.tolist()))
            full.update(got)
            p = numpy.array([full[i] for i in ids], dtype=numpy.int64)
            M = rec["matrix"]
            feasible = bool(((M[:, 1:] @ p) >= M[:, 0]).all())
            ctx.check(feasible and int(p @ w) == best, "solve:optimal", lambda: dict(h, index=k, reported=got, value=int(p @ w), best=best, feasible=feasible))
            if safe:
                x = {i: got[i] for i in leaf_ids if i in got}
                if set(x) == leaf_ids:
                    t = refmodel.truth(graph, top, x)[top]
                    ctx.check(t == 1, "solve:satisfies-model(solver-safe)", lambda: dict(h, index=k, leaf_assignment=x))
            if len(set(w.tolist())) >= 2 and any(got.values()):
                ctx.nt(monitor.digest([case["recipe"], o, inc]))
    ctx.sample(h)


# ------------------------------------------------------------------------------------------- select
def run_select(case, ctx):
    rng = random.Random(case["seed"])
    c14.clear_caches()
    cfg = recipes.fresh(case["recipe"])
    v = adapters.validated(cfg)
    if v is None:
        raise monitor.OutOfScope()
    graph, top, info = v
    c14.clear_caches()
    own = recipes.fresh(case["recipe"]).to_ge_polyhedron(True)
    c14.clear_caches()
    col_ids = [v_.id for v_ in own.variables][1:]
    if len(col_ids) > 16:
        raise monitor.OutOfScope()
    leaf_ids = set(refmodel.leaves(graph, top))
    prios = []
    for _ in range(rng.randint(1, 3)):
        d = {}
        for _ in range(rng.randint(0, 3)):
            d[rng.choice(col_ids)] = rng.choice([-2, -1, 1, 1, 2, 3])
        prios.append(d)
    only_leafs = rng.random() < 0.5
    mode = rng.random()
    faults = {}
    exc = None
    if mode < 0.25:
        faults[rng.randrange(len(prios))] = "none"
    elif mode < 0.45:
        exc = rng.choice([ValueError("solver failed"), RuntimeError("boom"), CustomSolverError("custom"),
                          RuntimeError(), CustomSolverError(), AssertionError(), KeyError("x")])
        faults[rng.randrange(len(prios))] = exc
    rec = {}
    solver = confgen.exact_solver_factory(rec, faults)
    if rng.random() < 0.2 and exc is None:
        solver = as_gen(solver)
        ctx.count("count:generator-result")
    h = {"api": "select", "recipe": case["recipe"], "prios": prios, "only_leafs": only_leafs, "faults": {str(k): repr(v_) for k, v_ in faults.items()}}
    if exc is not None:
        try:
            out = list(cfg.select(*[dict(p) for p in prios], solver=solver, only_leafs=only_leafs))
            ctx.check(False, "select:exception->InfeasibleError", lambda: dict(h, note="no exception surfaced", got=repr(out)[:300]))
        except pnd.InfeasibleError:
            ctx.check(True, "select:exception->InfeasibleError", None)
        except BaseException as e:
            ctx.check(False, "select:exception->InfeasibleError", lambda: dict(h, surfaced=type(e).__name__, msg=str(e)[:200]))
        return
    res = ctx.call("select", lambda: list(cfg.select(*[dict(p) for p in prios], solver=solver, only_leafs=only_leafs)))
    if "objectives" not in rec:
        ctx.check(False, "select:polyhedron-is-own", lambda: dict(h, note="solver callable never invoked"))
        return
    h.update(columns_received=rec["column_ids"], objectives_received=[o.tolist() for o in rec["objectives"]],
             returned=[None if r[0] is None else r[0].tolist() for r in rec["returned"]])
    ctx.check(polys_equal(rec["polyhedron"], own), "select:polyhedron-is-own",
              lambda: dict(h, expected_matrix=numpy.asarray(own).tolist(), got_matrix=rec["matrix"].tolist(), expected_columns=[0] + col_ids))
    ids = rec["column_ids"][1:]
    if len(res) != len(rec["returned"]):
        ctx.check(False, "select:reported-dict", lambda: dict(h, note="number of results", got=len(res)))
        return
    feas = rec["feasible"]
    # the objective entry of a column that the request names is that request's (compressed) priority: non-zero and of the sign that was asked for
    for k, w in enumerate(rec["objectives"][:len(prios)]):
        wl_ = [int(x) for x in w.tolist()]
        bad = {i: (prios[k][i], wl_[ids.index(i)]) for i in prios[k] if i in ids and prios[k][i] != 0 and (wl_[ids.index(i)] > 0) != (prios[k][i] > 0)}
        if any(i in ids and prios[k][i] != 0 for i in prios[k]):
            ctx.check(not bad, "select:objective-follows-request", lambda: dict(h, index=k, request=prios[k], columns=ids, objective=wl_, wrong=bad))
    for k, (r, (vec, ov2, sc2), w) in enumerate(zip(res, rec["returned"], rec["objectives"])):
        sol = r if only_leafs else r[0]
        if vec is None:
            ctx.check(sol == {}, "select:none->{}", lambda: dict(h, index=k, got=repr(sol)))
            continue
        full = {i: int(val) for i, val in zip(ids, vec.tolist())}
        got = {kk: int(vv) for kk, vv in sol.items()}
        if only_leafs:
            exp = {i: val for i, val in full.items() if i in leaf_ids}
            ctx.check(got == exp, "select:only_leafs", lambda: dict(h, index=k, expected=exp, got=got))
        else:
            ctx.check(got == full, "select:reported-dict", lambda: dict(h, index=k, expected=full, got=got))
        if feas is not None and len(feas):
            wv = numpy.array([int(x) for x in w.tolist()], dtype=object)
            best = max(feas.astype(object) @ wv)
            rep = dict(full)
            rep.update(got)
            p = numpy.array([rep[i] for i in ids], dtype=object)
            M = rec["matrix"].astype(object)
            feasible = all((M[i, 1:] @ p) >= M[i, 0] for i in range(M.shape[0]))
            ctx.check(feasible and (p @ wv) == best, "select:optimal", lambda: dict(h, index=k, reported=got, best=int(best), value=int(p @ wv)))
            if len(set(wv.tolist())) >= 2 and any(got.values()):
                ctx.nt(monitor.digest([case["recipe"], prios[k], only_leafs]))
    ctx.sample(h)


def install(ctx):
    pass


def gen_case(rng, tier, ctx, i):
    if rng.random() < 0.5:
        o = common.varied_opts(rng, tier, p_int=0.15, p_big=0, depth=2, maxfan=3, nleaf=4)
        rec = common.model_case(rng, tier, o)
        if rec is None:
            return None
        if rng.random() < 0.25:
            # plain models may contain the configurator's defaulted Any / Xor as well; their helpers are auto-generated too
            for n in refmodel.recipe_nodes(rec):
                if n["k"] in ("Any", "Xor") and len(n["args"]) >= 2 and all(a["k"] in ("var", "str") for a in n["args"]) and rng.random() < 0.7:
                    n["k"] = "ccAny" if n["k"] == "Any" else "ccXor"
                    n["default"] = [rng.choice(n["args"])["id"]]
        if rng.random() < 0.2:
            # sub-propositions the author named himself, with names that happen to begin like the generated ones ("VARIANT ...")
            for n in refmodel.recipe_nodes(rec):
                if n["k"] not in ("var", "str", "ref") and n.get("id") and not str(n["id"]).startswith("VAR"):
                    n["id"] = "VARIANT " + str(n["id"])
        return {"api": "solve", "recipe": rec, "seed": rng.getrandbits(32), "reduce": rng.random() < 0.25}
    rec = confgen.gen_config(rng)
    if rng.random() < 0.15:
        BIG = rng.choice([3_000_000_000, 2 ** 33, -3_000_000_000])
        lo, hi = (BIG, BIG + 2) if BIG > 0 else (BIG - 2, BIG)
        rec["args"].append({"k": "Imply", "id": None, "args": [{"k": "All", "id": None, "args": [confgen.V("a")]},
                                                             {"k": "AtLeast", "id": None, "value": lo + 1, "sign": 1, "args": [{"k": "var", "id": "t", "b": [lo, hi]}]}]})
    return {"api": "select", "recipe": rec, "seed": rng.getrandbits(32)}


def run_case(case, ctx):
    if case["api"] == "solve":
        run_solve(case, ctx)
    else:
        run_select(case, ctx)
