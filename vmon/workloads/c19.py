"""C19 Point classification agrees with A x >= b in every input shape.

Monitors: post-conditions on the real ge_polyhedron.ineqs_satisfied, separable, ineq_separate_points (and the
rebound module aliases). Oracle: rowok = einsum('ij,...j->...i', A, P) >= b in int64 (inputs are small), then
all over rows / its negation / any over the points of a group, with the documented output shapes.
"""
import numpy
import puan.ndarray as pnd

from .. import monitor
from . import polygen

PROP = "C19"
RULE = ("cases: random polyhedra (1-4 rows, 1-4 columns) and integer points as a vector, a matrix of points, or a stack of matrices; "
        "degenerate sizes (1 row, 1 column, 1 point, 1 group); points on the boundary A p = b over-represented. non-trivial: among "
        "the judged points of the call some satisfy all rows and some do not (or, for ineq_separate_points, some row separates and "
        "some does not); distinct by digest of (function, matrix, points)"
        ' Also: duplicate rows, magnitudes beyond 2**53 judged with exact Python-int arithmetic (inputs whose row values leave int64 are out of scope).')
BUDGET = {"quick": (12, 3000, 90), "thorough": (16, 8000, 1200)}
FUNCS = ["ineqs_satisfied", "separable", "ineq_separate_points"]
PYTEST = True     # thorough tier also runs the repository's own tests under these monitors
MANDATORY = ["judged:%s:%dD" % (f, d) for f in FUNCS for d in (1, 2, 3)]


def snap(args, kwargs):
    P = args[0]
    pts = args[1] if len(args) > 1 else kwargs.get("points")
    M = numpy.asarray(P)
    pts = numpy.asarray(pts)
    if M.ndim != 2 or pts.ndim not in (1, 2, 3) or pts.dtype.kind not in "iu" or pts.shape[-1] != M.shape[1] - 1 or 0 in pts.shape:
        return None
    return M.astype(numpy.int64).copy(), pts.astype(numpy.int64).copy()


def rowok(M, pts):
    """exact: Python-int arithmetic (object dtype), so values beyond 2**53 are compared correctly"""
    A, b = M[:, 1:].astype(object), M[:, 0].astype(object)
    P = pts.astype(object)
    flat = P.reshape(-1, P.shape[-1])
    out = numpy.array([[sum(int(a) * int(x) for a, x in zip(A[i], p)) >= int(b[i]) for i in range(A.shape[0])] for p in flat], dtype=bool)
    return out.reshape(P.shape[:-1] + (A.shape[0],))


def make_post(name):
    def post(pre, args, kwargs, result):
        ctx = monitor.CTX
        if pre is None:
            raise monitor.OutOfScope()
        M, pts = pre
        # int64 is the stated arithmetic: inputs whose exact row values leave it are outside the domain
        A_, P_ = M[:, 1:].astype(object), pts.astype(object).reshape(-1, pts.shape[-1])
        if any(abs(sum(abs(int(a) * int(x)) for a, x in zip(A_[i], p_))) >= 2 ** 62 for i in range(A_.shape[0]) for p_ in P_):
            raise monitor.OutOfScope()
        ok = rowok(M, pts)
        if name == "ineqs_satisfied":
            exp = ok.all(axis=-1)
        elif name == "separable":
            exp = ~ok.all(axis=-1)
        else:
            exp = (~ok) if pts.ndim == 1 else (~ok).any(axis=-2)
        got = numpy.asarray(result)
        good = got.shape == numpy.asarray(exp).shape and bool((got.astype(bool) == exp).all())
        sub = "%s:%dD" % (name, pts.ndim)
        ctx.check(good, sub, lambda: {"M": M.tolist(), "points": pts.tolist() if pts.size <= 400 else "%d points (see case)" % pts.size, "points_dtype": str(numpy.asarray(args[1] if len(args) > 1 else kwargs.get("points")).dtype),
                                      "got": got.tolist() if got.size <= 400 else "...", "expected": numpy.asarray(exp).tolist() if numpy.asarray(exp).size <= 400 else "...",
                                      "got_shape": list(got.shape), "expected_shape": list(numpy.asarray(exp).shape)})
        e = numpy.asarray(exp).reshape(-1)
        if e.any() and not e.all():
            ctx.nt(monitor.digest([name, M.tolist(), pts.tolist() if pts.size <= 400 else [pts.shape, int(pts.sum())]]))
        if pts.size <= 200:
            ctx.sample({"function": name, "M": M.tolist(), "points": pts.tolist(), "result": got.tolist()}, cap=6)
        return True
    return post


def install(ctx):
    G = pnd.ge_polyhedron
    for f in FUNCS:
        monitor.attach(G, f, make_post(f), snap)
    monitor.rebind_alias(pnd, "separable", G, "separable")
    monitor.rebind_alias(pnd, "ineq_separate_points", G, "ineq_separate_points")


def gen_case(rng, tier, ctx, i):
    p = polygen.gen_poly(rng, allow_int16=False, small=True)
    n = len(p["ids"])
    nd = rng.choice([1, 2, 2, 3, 3])
    def pt():
        r = rng.random()
        if r < 0.5:
            return [rng.randint(l, u) for l, u in p["bounds"]]
        return [rng.randint(-4, 4) for _ in range(n)]
    if nd == 1:
        pts = pt()
    elif nd == 2:
        pts = [pt() for _ in range(rng.randint(1, 5))]
    else:
        k = rng.randint(1, 4)
        pts = [[pt() for _ in range(k)] for _ in range(rng.randint(1, 3))]
    if rng.random() < 0.4:
        # put a row on the boundary of the first point
        first = numpy.array(pts, dtype=numpy.int64).reshape(-1, n)[0]
        row = rng.choice(p["M"])
        row[0] = int(numpy.dot(row[1:], first)) + rng.choice([0, 0, 1, -1])
    if rng.random() < 0.12:
        # magnitudes beyond 2**53 (still far inside int64): a violation by a margin of 1 must not be rounded away
        big = rng.choice([2 ** 53, 2 ** 55 + 1, 3 * 2 ** 53])
        for r_ in p["M"]:                       # keep every product far inside int64: small coefficients everywhere
            for k_ in range(len(r_)):
                r_[k_] = max(-3, min(3, r_[k_]))
        row = p["M"][0]
        first = numpy.array(pts, dtype=object).reshape(-1, n)[0]
        if rng.random() < 0.5:
            row[1] = big
            row[0] = int(sum(int(a) * int(x) for a, x in zip(row[1:], first))) + rng.choice([0, 1])
        else:
            j = rng.randrange(n)
            flat = numpy.array(pts, dtype=object).reshape(-1, n)
            flat[0][j] = big
            pts = flat.reshape(numpy.array(pts, dtype=object).shape).tolist()
            for k_ in range(1, len(row)):
                row[k_] = rng.choice([-3, -1, 1, 3])
            row[0] = int(sum(int(a) * int(x) for a, x in zip(row[1:], flat[0]))) + rng.choice([0, 1])
        p.pop("dtype", None)
    elif rng.random() < 0.12:
        # medium magnitudes: coefficients and coordinates of a few thousand (every single number fits 16 bits, the row values pass 2**24): a row met
        # exactly, or missed by one, must not be rounded
        flat = numpy.array(pts, dtype=object).reshape(-1, n)
        for j in range(n):
            flat[0][j] = rng.choice([-1, 1]) * rng.randint(2048, 32767)
        pts = flat.reshape(numpy.array(pts, dtype=object).shape).tolist()
        row = p["M"][0]
        for k_ in range(1, len(row)):
            row[k_] = rng.choice([-1, 1]) * rng.randint(2048, 32767)
        row[0] = int(sum(int(a) * int(x) for a, x in zip(row[1:], flat[0]))) + rng.choice([0, 0, 1, -1])
        p.pop("dtype", None)
        ctx.count("count:medium-magnitudes(row values beyond 2^24)")
    case = {"poly": p, "points": pts, "fn": rng.choice(FUNCS), "via": rng.choice(["method", "alias"])}
    if rng.random() < 0.15 and "points_dtype" not in case:
        case["derive"] = rng.getrandbits(32)
    if nd == 2 and rng.random() < 0.3:
        if len(case["points"]) % 2:
            case["points"] = case["points"] + [list(case["points"][0])]
        case["rearrange"] = True
    flat_vals = numpy.array(pts, dtype=object).reshape(-1).tolist()
    if rng.random() < 0.3:
        # integer points stored in a narrower or unsigned integer type (where every coordinate fits)
        fits = [t for t in ("int8", "uint8", "int16", "uint16", "int32", "uint32")      # not uint64: numpy promotes int64 x uint64 to float64, a numpy rule outside the statement
                if all(numpy.iinfo(t).min <= v <= numpy.iinfo(t).max for v in flat_vals)]
        if fits:
            case["points_dtype"] = rng.choice(fits)
    if rng.random() < 0.04 and nd >= 2:
        # a long list of points whose only violators come late
        k = rng.choice([2049, 2500, 4097, 5000])
        ok_pt = [0] * n
        row = p["M"][0]
        row[0] = min(0, int(row[0]))
        for r_ in p["M"]:
            r_[0] = min(0, int(r_[0]))                     # the origin satisfies every row
        bad = [0] * n
        j = next((j_ for j_ in range(n) if row[1 + j_] != 0), None)
        if j is not None:
            bad[j] = -3 if row[1 + j] > 0 else 3
            row[0] = 0
            many = [list(ok_pt) for _ in range(k)]
            many[rng.choice([k - 1, k - 1, 2048, k - 2])] = bad
            case["points"] = many if nd == 2 else [many, [list(ok_pt)] * k][:rng.randint(1, 2)]
            case.pop("points_dtype", None)
            p.pop("dtype", None)
    return case


def run_case(case, ctx):
    P = polygen.build_poly(case["poly"])
    pts = numpy.array(case["points"], dtype=getattr(numpy, case.get("points_dtype", "int64")))
    fn = case["fn"]
    if case["via"] == "alias" and fn != "ineqs_satisfied":
        ctx.call(fn, getattr(pnd, fn), P, pts)
    else:
        ctx.call(fn, getattr(P, fn), pts)
    if pts.ndim == 2 and pts.shape[0] >= 2 and pts.shape[0] % 2 == 0 and case.get("rearrange"):
        # the same coordinates asked again on the same polyhedron in another arrangement (a stack of two groups, then single vectors)
        stack = pts.reshape(2, pts.shape[0] // 2, pts.shape[1])
        for f in FUNCS:
            ctx.call(f, getattr(P, f), pts)
            ctx.call(f, getattr(P, f), stack)
            ctx.call(f, getattr(P, f), pts[0])
            ctx.call(f, getattr(P, f), pts[:1])
        ctx.count("count:same-coordinates-rearranged")
    if case.get("derive") is not None:
        # a polyhedron derived from the first one by ordinary array operations is classified against its own rows
        import random
        rng = random.Random(case["derive"])
        for f in rng.sample(FUNCS, 2):
            ctx.call(f, getattr(P, f), pts)                 # earlier questions about P (whatever they may remember)
        how, Q = polygen.derive(P, rng)
        if type(Q) is type(P) and numpy.asarray(Q).ndim == 2 and numpy.asarray(Q).shape[1] == numpy.asarray(P).shape[1]:
            ctx.count("count:derived-polyhedron:" + how)
            for f in FUNCS:
                ctx.call(f, getattr(Q, f), pts)
