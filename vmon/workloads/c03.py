"""C03 Evaluation computes the arithmetic truth function of every node.

Monitors: post-conditions on the real AtLeast.evaluate_propositions, AtLeast.evaluate, variable.evaluate.
Oracle: refmodel.truth on the id graph snapshotted *before* the call, with overrides for sub-proposition ids
fixed in the interpretation (or by their own bounds).
"""
import random

import numpy
import puan
import puan.logic.plog as pg

from .. import adapters, monitor, recipes, refmodel
from . import common

PROP = "C03"
RULE = ("cases: random recipes (all connectives, DAG sharing, integer leaves incl. int16 extremes, pre-fixed "
        "sub-propositions) evaluated on total leaf interpretations given as int / numpy.int64 / (v,v) / Bounds(v,v), "
        "with random constant overrides of sub-proposition ids and unknown extra keys; a fresh object per call. "
        "non-trivial: depth>=2 and (a negatively signed node or an integer leaf); distinct by canonical shape digest"
        ' Also: values outside the declared bounds, one model object with one dict mutated in place, what-if sequences on one object that name the same sub-proposition ids, Counter/defaultdict/OrderedDict interpretations, pre-fixed top nodes, hostile twins, the bounded sweep.')
BUDGET = {"quick": (12, 780, 90), "thorough": (16, 2200, 1200)}
PYTEST = True     # thorough tier also runs the repository's own tests under these monitors
MANDATORY = ["judged:node-value", "judged:top-present", "judged:evaluate==top-entry", "judged:variable.evaluate",
             "contract:AtLeast.evaluate_propositions", "contract:AtLeast.evaluate", "count:override-cases", "count:out-of-bounds-values", "count:same-object-same-dict-calls", "count:what-if-sequences", "count:dict-subclass-interpretations", "count:open-interval-on-compound"]


def split_interpretation(graph, interp):
    """-> (x over leaves, overrides over compounds) if every named id has a constant value and all leaves
    are fixed; else None (partial / interval interpretations are C06/C07 territory)"""
    x, ov = {}, {}
    split_interpretation.named_open = set()
    for k, v in interp.items():
        if k not in graph:
            continue
        if isinstance(v, (int, numpy.integer)) and not isinstance(v, bool):
            c = int(v)
        elif isinstance(v, tuple) and len(v) == 2 and v[0] == v[1]:
            c = int(v[0])
        elif isinstance(v, puan.Bounds) and v.lower == v.upper:
            c = int(v.lower)
        elif not graph[k]["leaf"] and ((isinstance(v, tuple) and tuple(v) == (0, 1)) or (isinstance(v, puan.Bounds) and v.as_tuple() == (0, 1))):
            if graph[k]["b"][0] == graph[k]["b"][1]:
                return None   # open bounds given for a node that its own bounds fix: the statement does not say which of the two wins
            split_interpretation.named_open.add(k)
            continue          # bounds that do not fix the node: it is still computed bottom-up
        else:
            return None
        if graph[k]["leaf"]:
            x[k] = c
        else:
            ov[k] = c
    return x, ov


def snap(args, kwargs):
    self = args[0]
    interp = args[1] if len(args) > 1 else kwargs.get("interpretation")
    if len(args) > 2 or "out" in kwargs:
        return None
    v = adapters.validated(self, need_no_prefixed=False)
    if v is None or not isinstance(interp, dict):
        return None
    graph, top, info = v
    sp = split_interpretation(graph, interp)
    if sp is None:
        return None
    x, ov = sp
    # what must be reported: everything that is not below a fixed node; the library also stops reporting below a node that the
    # interpretation mentions with open bounds (the node itself is reported and must have the computed value) -- not demanded
    cut = dict(ov)
    for k in split_interpretation.named_open:
        cut.setdefault(k, None)
    vis = refmodel.visible(graph, top, cut)
    # every leaf that the evaluation can reach must be fixed (by the interpretation or by its bounds);
    # leaves that are only below a fixed node cannot influence a reported value
    full = {}
    for nid, n in graph.items():
        if not n["leaf"]:
            continue
        if nid in x:
            full[nid] = x[nid]
        elif n["b"][0] == n["b"][1] or nid not in vis:
            full[nid] = n["b"][0]
        else:
            return None
    return graph, top, full, ov, vis


def evalprops_post(pre, args, kwargs, result):
    ctx = monitor.CTX
    if pre is None:
        raise monitor.OutOfScope()
    graph, top, x, ov, vis = pre
    want = refmodel.truth(graph, top, x, ov)
    facts = {"overrides": bool(ov)}
    ok = isinstance(result, dict)
    bad = None
    n = 0
    if ok:
        for nid in vis:
            n += 1
            if nid not in result:
                bad = ("missing", nid, want[nid], None)
                break
            if common.const(result[nid]) != want[nid]:
                bad = ("value", nid, want[nid], common.as_tuple(result[nid]))
                break
        if bad is None:
            for nid, b in result.items():
                if nid in want and nid not in vis:
                    n += 1
                    if common.const(b) != want[nid]:
                        bad = ("value-below-fixed", nid, want[nid], common.as_tuple(b))
                        break
    ctx.judged("node-value", max(n - 1, 0))
    ctx.check(ok and bad is None, "node-value",
              lambda: {"model": c05_text(graph, top), "x": x, "overrides": ov, "bad": bad, "result_type": type(result).__name__}, facts)
    ctx.check(ok and top in result, "top-present", lambda: {"model": c05_text(graph, top), "keys": list(result) if ok else None})
    if ov:
        ctx.count("count:override-cases")
    d = refmodel.depth(graph, top)
    if d >= 2 and (any(n_["sign"] < 0 for n_ in graph.values() if not n_["leaf"]) or any(tuple(n_["b"]) != (0, 1) for n_ in graph.values() if n_["leaf"])):
        ctx.nt(refmodel.shape_digest(graph, top))
    ctx.sample({"model": c05_text(graph, top), "x": x, "overrides": ov, "expected": {k: want[k] for k in vis}})
    return True


def evaluate_post(pre, args, kwargs, result):
    ctx = monitor.CTX
    if pre is None:
        raise monitor.OutOfScope()
    graph, top, x, ov, vis = pre
    want = refmodel.truth(graph, top, x, ov)[top]
    ctx.check(common.const(result) == want, "top-value",
              lambda: {"model": c05_text(graph, top), "x": x, "overrides": ov, "expected": want, "got": common.as_tuple(result)})
    return True


def var_snap(args, kwargs):
    self = args[0]
    interp = args[1] if len(args) > 1 else kwargs.get("interpretation")
    return (self.id, common.as_tuple(self.bounds), interp.get(self.id) if self.id in interp else None, self.id in interp)


def var_post(pre, args, kwargs, result):
    ctx = monitor.CTX
    vid, b, val, present = pre
    if not present:
        want = b
    elif isinstance(val, (int, numpy.integer)):
        want = (int(val), int(val))
    elif isinstance(val, tuple):
        want = (int(val[0]), int(val[1]))
    elif isinstance(val, puan.Bounds):
        want = common.as_tuple(val)
    else:
        raise monitor.OutOfScope()
    ctx.check(isinstance(result, puan.Bounds) and common.as_tuple(result) == want, "variable.evaluate",
              lambda: {"id": vid, "bounds": b, "value": val, "got": repr(result)})
    return True


def c05_text(graph, top):
    return [[nid, graph[nid]["sign"], graph[nid]["ch"], graph[nid]["value"], list(graph[nid]["b"])] for nid in refmodel.topo(graph, top)]


def install(ctx):
    monitor.attach(pg.AtLeast, "evaluate_propositions", evalprops_post, snap)
    monitor.attach(pg.AtLeast, "evaluate", evaluate_post, snap)
    monitor.attach(puan.variable, "evaluate", var_post, var_snap)


def gen_case(rng, tier, ctx, i):
    if rng.random() < 0.025:
        rec = common.deep_chain(rng, rng.randint(34, 46))        # very deep nesting
        ctx.count("count:deep-models")
        return {"recipe": rec, "seed": rng.getrandbits(32)}
    if rng.random() < 0.1:
        from . import c04
        ctx.count("count:bounded-sweep-formulas")
        return {"recipe": recipes.strip(c04.next_sweep(i, ctx.seed)), "seed": rng.getrandbits(32)}
    o = common.varied_opts(rng, tier, p_window=0.08)
    if rng.random() < 0.05:
        return special_case(rng, ctx)
    if rng.random() < 0.06:
        from . import confgen
        ctx.count("count:configurator-models")
        return {"recipe": confgen.gen_config(rng), "seed": rng.getrandbits(32)}     # a configurator is a model too (often one that has already answered a structural question)
    rec = common.model_case(rng, tier, o)
    if rec is None:
        return None
    # pre-fix some explicitly named sub-propositions
    if rng.random() < 0.25:
        nodes = [n for n in refmodel.recipe_nodes(rec) if n.get("id") and n["k"] not in ("var", "str", "ref", "Not")]
        for n in rng.sample(nodes, min(len(nodes), rng.randint(1, 2))):
            n["fix"] = rng.choice([0, 1])
    return common.with_twins(rng, {"recipe": rec, "seed": rng.getrandbits(32)})


def special_case(rng, ctx):
    """(a) thresholds of large magnitude met / missed by exactly one; (b) sub-propositions without any sub-proposition of their own"""
    if rng.random() < 0.5:
        n = rng.randint(2, 5)
        wide = rng.choice([(0, 40000), (-32768, 32767), (0, 10 ** 7), (-10 ** 6, 10 ** 6)])
        ids = rng.sample("abcdefgh", n)
        x = {i: rng.randint(max(wide[0], 0) + wide[1] // 2, wide[1]) for i in ids}
        s_ = sum(x.values())
        sign = rng.choice([1, -1])
        delta = rng.choice([0, 1, -1, 2])
        node = {"k": "AtLeast", "id": rng.choice([None, "BIG"]), "args": [{"k": "var", "id": i, "b": list(wide)} for i in ids], "value": sign * s_ + delta, "sign": sign}
        if rng.random() < 0.3:
            node = {"k": "AtMost", "id": rng.choice([None, "BIG"]), "args": node["args"], "value": s_ + rng.choice([0, -1, 1])}
        rec = node if rng.random() < 0.5 else {"k": rng.choice(["All", "Any", "Imply"]), "id": None, "args": [node, {"k": "var", "id": "q", "b": [0, 1]}]}
        x["q"] = rng.randint(0, 1)
        ctx.count("count:large-threshold-boundary")
        return {"recipe": rec, "seed": rng.getrandbits(32), "interps": [x, dict(x, **{ids[0]: x[ids[0]] - 1}), dict(x, **{ids[-1]: max(wide[0], x[ids[-1]] - 2)})]}
    empty = lambda: rng.choice([{"k": "All", "id": rng.choice([None, "E"]), "args": []}, {"k": "Any", "id": rng.choice([None, "E"]), "args": []},
                                {"k": "AtLeast", "id": None, "args": [], "value": rng.choice([0, 1, -1]), "sign": rng.choice([1, -1])},
                                {"k": "AtMost", "id": None, "args": [], "value": rng.choice([0, 1])}])
    leaf = lambda i: {"k": "var", "id": i, "b": [0, 1]}
    e = empty()
    rec = rng.choice([lambda: {"k": "All", "id": "A", "args": [e, leaf("x")]}, lambda: {"k": "Any", "id": None, "args": [e, leaf("x"), leaf("y")]},
                      lambda: {"k": "Imply", "id": None, "args": [e, leaf("x")]}, lambda: {"k": "AtMost", "id": None, "args": [e, leaf("x")], "value": 0},
                      lambda: {"k": "Imply", "id": None, "args": [{"k": "All", "id": None, "args": [leaf("x")]}, e]}])()
    ctx.count("count:sub-proposition-without-children")
    return {"recipe": rec, "seed": rng.getrandbits(32)}


def _run_one(case, ctx):
    rng = random.Random(case["seed"])
    m0 = recipes.fresh(case["recipe"])
    if adapters.is_leaf(m0):
        raise monitor.OutOfScope()
    graph, top, info = common.domain(m0, allow_prefixed=True, recipe=case["recipe"])
    for x_ in case.get("interps", []):
        x_ = {k_: v_ for k_, v_ in x_.items() if k_ in graph}
        ctx.call("evaluate_propositions", recipes.fresh(case["recipe"]).evaluate_propositions, common.interp(rng, x_))
        ctx.call("evaluate", recipes.fresh(case["recipe"]).evaluate, dict(x_))
    if graph[top]["b"][0] == graph[top]["b"][1] and False:
        raise monitor.OutOfScope()
    ids, bounds = common.leaf_box(graph, top)
    comp = [c for c in refmodel.compounds(graph, top)]
    cap = common.point_cap(ctx.tier, 10, 40)
    # one model object and one interpretation dict object, updated in place between calls (leaf values only, so the known
    # rebinding of named sub-propositions is not involved): every call must reflect the dict as it is *now*
    if rng.random() < 0.3 and ids:
        same = recipes.fresh(case["recipe"])
        d = None
        for x, _ex in refmodel.assignments(ids, bounds, rng, 4):
            if d is None:
                d = common.interp(rng, x)
            else:
                for k_, v_ in x.items():
                    d[k_] = common.value_form(rng, v_)
            ctx.count("count:same-object-same-dict-calls")
            if rng.random() < 0.5:
                ctx.call("evaluate_propositions", same.evaluate_propositions, d)
            else:
                ctx.call("evaluate", same.evaluate, d)
    # what-if questions in a row on ONE model object: every interpretation fixes all leaves and names the same sub-proposition
    # ids (so whatever an earlier call left on those nodes is overwritten): the named nodes must take the value given NOW
    if rng.random() < 0.3 and comp:
        same = recipes.fresh(case["recipe"])
        named = [top] if rng.random() < 0.6 else [rng.choice(comp)]
        if rng.random() < 0.3:
            named = list({top, rng.choice(comp)})
        for x, _ex in refmodel.assignments(ids, bounds, rng, 4):
            d = common.interp(rng, x)
            for c in named:
                d[c] = common.value_form(rng, rng.choice([0, 1]))
            ctx.count("count:what-if-sequences")
            if rng.random() < 0.6:
                ctx.call("evaluate", same.evaluate, d)
            else:
                ctx.call("evaluate_propositions", same.evaluate_propositions, d)
    for x, _ex in refmodel.assignments(ids, bounds, rng, cap):
        if rng.random() < 0.12 and ids:
            # the interpretation wins over the declared bounds (documented by variable.evaluate): values outside them
            lid = rng.choice(ids)
            lo, hi = graph[lid]["b"]
            x = dict(x)
            x[lid] = rng.choice([lo - rng.randint(1, 3), hi + rng.randint(1, 3)])
            ctx.count("count:out-of-bounds-values")
        interp = common.interp(rng, x)
        if rng.random() < 0.35 and comp:
            for c in rng.sample(comp, rng.randint(1, min(2, len(comp)))):
                interp[c] = common.value_form(rng, rng.choice([0, 1]))
        if rng.random() < 0.2:
            interp["no-such-id"] = 1
        if rng.random() < 0.2 and comp:
            # a sub-proposition mentioned with bounds that leave it open (e.g. taken over from an earlier partial evaluation)
            interp[rng.choice(comp)] = rng.choice([(0, 1), puan.Bounds(0, 1)])
            ctx.count("count:open-interval-on-compound")
        mode = rng.random()
        if rng.random() < 0.15 and all(isinstance(v, int) and not isinstance(v, bool) for v in interp.values()):
            # other mapping types a caller may hold its values in (they are dicts): missing keys must stay missing
            import collections
            cont = rng.choice([collections.Counter, lambda d_: collections.defaultdict(int, d_), collections.OrderedDict])
            interp = cont(interp)
            ctx.count("count:dict-subclass-interpretations")
            m = recipes.fresh(case["recipe"])
            ctx.call("evaluate_propositions", m.evaluate_propositions, interp)
            continue
        if mode < 0.5:
            m = recipes.fresh(case["recipe"])
            ctx.call("evaluate_propositions", m.evaluate_propositions, dict(interp))
        elif mode < 0.8:
            m = recipes.fresh(case["recipe"])
            ctx.call("evaluate", m.evaluate, dict(interp))
        else:
            ma, mb = recipes.fresh(case["recipe"]), recipes.fresh(case["recipe"])
            ra = ctx.call("evaluate", ma.evaluate, dict(interp))
            rb = ctx.call("evaluate_propositions", mb.evaluate_propositions, dict(interp))
            ctx.check(top in rb and common.as_tuple(ra) == common.as_tuple(rb[top]), "evaluate==top-entry",
                      lambda: {"recipe": case["recipe"], "interp": interp, "evaluate": repr(ra), "entry": repr(rb.get(top))})
    # leaves evaluated on their own
    for lid in ids[:3]:
        v = puan.variable(lid, bounds=tuple(graph[lid]["b"]))
        val = rng.choice([rng.randint(-3, 3), (0, 1), puan.Bounds(1, 2), numpy.int64(2)])
        ctx.call("variable.evaluate", v.evaluate, {rng.choice([lid, "zz"]): val})


def run_case(case, ctx):
    """the base recipe, then its hostile twins (same ids, bounds/thresholds that collide under the library's hashes)"""
    for k, rec in enumerate(common.recipes_of(case)):
        sub = dict(case, recipe=rec)
        sub.pop("twins", None)
        if k:
            ctx.count("count:twin-runs")
        try:
            _run_one(sub, ctx)
        except monitor.OutOfScope:
            ctx.count("case:out_of_scope" if k == 0 else "twin:out_of_scope")
