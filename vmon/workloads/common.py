"""helpers shared by the plog workloads"""
import random

import puan
import puan.modules.configurator  # noqa: subclasses must be loaded before monitors are attached to their overrides

from .. import adapters, monitor, refmodel, recipes


def domain(model, allow_prefixed=False, allow_ref_leaf=False, recipe=None):
    """common domain of C01..C08: validated model. raises OutOfScope otherwise.
    With `recipe`: the leaves of the built object must carry the bounds they were declared with (every statement quantifies over the
    declared box; an oracle that reads the box back from the object would agree with a constructor that stored something else)"""
    v = adapters.validated(model, need_no_prefixed=not allow_prefixed, allow_ref_leaf=allow_ref_leaf)
    if v is None:
        raise monitor.OutOfScope()
    if recipe is not None and monitor.CTX is not None:
        graph = v[0]
        declared = refmodel.recipe_leaves(recipe)
        bad = {str(i): [list(map(int, declared[i])), list(map(int, graph[i]["b"]))] for i in declared
               if i in graph and graph[i]["leaf"] and tuple(map(int, graph[i]["b"])) != tuple(map(int, declared[i]))}
        monitor.CTX.check(not bad, "leaf-bounds-as-declared", lambda: {"recipe": recipe, "declared_vs_stored": bad})
    return v


def leaf_box(graph, top):
    ids = refmodel.leaves(graph, top)
    return ids, [graph[i]["b"] for i in ids]


def const(b):
    """constant of a puan.Bounds (or tuple) or None"""
    lo, hi = (b.as_tuple() if hasattr(b, "as_tuple") else tuple(b))
    return int(lo) if lo == hi else None


def as_tuple(b):
    lo, hi = (b.as_tuple() if hasattr(b, "as_tuple") else tuple(b))
    return (int(lo), int(hi))


def all_boolean(graph, top):
    return all(tuple(graph[i]["b"]) == (0, 1) for i in refmodel.leaves(graph, top))


def value_form(rng, v):
    """one of the accepted value forms for an interpretation entry holding constant v"""
    import numpy
    r = rng.random()
    if r < 0.4:
        return int(v)
    if r < 0.47:
        return numpy.int64(v)
    if r < 0.55:
        # narrow / unsigned numpy scalars are integers too (only where the value fits)
        for t in rng.sample([numpy.int8, numpy.uint8, numpy.int16, numpy.uint16, numpy.int32], 5):
            info = numpy.iinfo(t)
            if info.min <= v <= info.max:
                return t(v)
        return numpy.int64(v)
    if r < 0.8:
        return (int(v), int(v))
    return puan.Bounds(int(v), int(v))


def interp(rng, x):
    return {k: value_form(rng, v) for k, v in x.items()}


def point_cap(tier, quick=48, thorough=256):
    return quick if tier == "quick" else thorough


def model_case(rng, tier, opts=None):
    o = opts or recipes.Opts()
    if rng.random() < 0.04:
        return cc_case(rng)
    for _ in range(8):
        r = recipes.gen_model(rng, o)
        if recipes.refs_resolvable(r):
            r = recipes.strip(r)
            if rng.random() < 0.15:
                recipes.apply_forms(r, rng)      # the same model written with other accepted argument forms
            if rng.random() < 0.12:
                sprinkle_cc(r, rng)              # the configurator's Any / Xor (with defaults) are propositions too
            return r
    return None


def deep_chain(rng, depth, fixed_bottom=False, kinds=("Any", "All", "AtLeast", "Imply", "Not", "AtMost")):
    """a model nested `depth` levels deep (nothing in the statements bounds the depth)"""
    node = {"k": rng.choice(["Any", "All"]), "id": None, "args": [{"k": "var", "id": "x", "b": [1, 1] if fixed_bottom else [0, 1]},
                                                                {"k": "var", "id": "y", "b": [0, 1]}]}
    for d in range(depth):
        k = rng.choice(kinds)
        leaf = {"k": "var", "id": "l%d" % d, "b": [0, 1]}
        if k == "Imply":
            node = {"k": "Imply", "id": None, "args": [leaf, node] if rng.random() < 0.7 else [node, leaf]}
        elif k == "Not":
            node = {"k": "Not", "id": None, "args": [node]}
        elif k in ("AtLeast", "AtMost"):
            node = {"k": k, "id": None, "args": [node, leaf], "value": rng.choice([1, 2]) if k == "AtLeast" else rng.choice([0, 1])}
        else:
            node = {"k": k, "id": "D%d" % d if rng.random() < 0.2 else None, "args": [node, leaf]}
    return node


def varied_opts(rng, tier, **kw):
    """a spread of shapes: mostly small (so that truth tables are exhaustive), sometimes deep/wide"""
    r = rng.random()
    if r < 0.5:
        o = recipes.Opts(depth=2, maxfan=3, nleaf=4)
    elif r < 0.85:
        o = recipes.Opts(depth=3, maxfan=4, nleaf=5)
    else:
        o = recipes.Opts(depth=rng.choice([4, 5]), maxfan=rng.choice([3, 6, 8]), nleaf=rng.choice([5, 8]), p_leaf=0.55)
    o.p_subclass = 0.08          # now and then every leaf is an instance of a subclass of puan.variable
    o.__dict__.update(kw)
    return o


def witness_model(model):
    return {"text": adapters.model_text(model)}


def with_twins(rng, case, p=0.3):
    """attach hostile twins of case['recipe'] (run after the base in the same process)"""
    if rng.random() < p:
        tw = recipes.twins(case["recipe"], rng, n=rng.randint(1, 2))
        if tw:
            case["twins"] = tw
    return case


def recipes_of(case):
    return [case["recipe"]] + list(case.get("twins", []))


def sprinkle_cc(rec, rng):
    """turn some Any / Xor nodes over leaves into the configurator's subclasses (same truth function). A default is only given where no
    alternative can be negative: the default is split off as Any(d, Any(rest)), which equals Any(d, *rest) only then"""
    from .. import refmodel as _r
    for n in _r.recipe_nodes(rec):
        if n["k"] in ("Any", "Xor") and len(n["args"]) >= 2 and all(a["k"] in ("var", "str") for a in n["args"]) and rng.random() < 0.6:
            n["k"] = "ccAny" if n["k"] == "Any" else "ccXor"
            if rng.random() < 0.85 and all(a.get("b", (0, 1))[0] >= 0 for a in n["args"]):
                n["default"] = [rng.choice(n["args"])["id"]]
    return rec


def cc_case(rng, boolean=False):
    """an option group of the configurator (3-5 alternatives, usually with a default) used as an ordinary proposition inside a small model"""
    ids = rng.sample("abcdefgh", rng.randint(3, 5))
    neg = rng.random() < 0.3 and not boolean
    args = [{"k": "var", "id": i, "b": [0, 1]} for i in ids]
    if neg:
        args[rng.randrange(len(args))]["b"] = list(rng.choice([(-1, 1), (-2, 0), (-1, 0)]))     # an alternative that can be negative: no default then
    grp = {"k": rng.choice(["ccXor", "ccXor", "ccAny"]), "id": rng.choice([None, "G"]), "args": args}
    if not neg and rng.random() < 0.85:
        grp["default"] = [rng.choice(ids)]
        if rng.random() < 0.2:
            grp["default"] = rng.sample(ids, 2)
    other = {"k": "var", "id": rng.choice("xyz"), "b": [0, 1] if boolean else list(rng.choice([(0, 1), (0, 1), (-1, 2)]))}
    w = rng.choice(["bare", "Not", "ImplyC", "ImplyQ", "All", "Any", "AtLeast"])
    if w == "bare":
        return grp
    if w == "Not":
        return {"k": "Not", "id": None, "args": [grp]}
    if w == "ImplyC":
        return {"k": "Imply", "id": rng.choice([None, "I"]), "args": [grp, other]}
    if w == "ImplyQ":
        return {"k": "Imply", "id": rng.choice([None, "I"]), "args": [{"k": "All", "id": None, "args": [other]}, grp]}
    if w == "AtLeast":
        return {"k": "AtLeast", "id": rng.choice([None, "T"]), "args": [grp, other], "value": rng.choice([1, 2]), "sign": 1}
    return {"k": w, "id": rng.choice([None, "T"]), "args": [grp, other]}
