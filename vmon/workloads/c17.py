"""C17 Base64 round trip reproduces propositions and configured polyhedra exactly.

Monitors: post-conditions on the real AtLeast.to_b64 and ge_polyhedron_config.to_b64: the returned string is
unpacked again (plog.from_b64 / ge_polyhedron_config.from_b64) and the copy is compared with the receiver:
full structural digest (text form, classes, ids, bounds, generated-id flags, defaults, priorities; matrix, variables,
row index, default priority vector, dtype) and a query battery answered by both objects (evaluate on random points,
to_json, errors, to_ge_polyhedron, default priorities, select with the same exact solver).
"""
import json
import random

import numpy
import puan
import puan.logic.plog as pg
import puan.modules.configurator as cc
import puan.ndarray as pnd

from .. import adapters, digest, monitor, recipes, refmodel
from . import common, confgen, c14

PROP = "C17"
RULE = ("cases: plog models of every class (integer leaves, explicit and generated ids, DAG sharing), configurators with defaults, and their "
        "configured polyhedra; to_b64 -> from_b64. non-trivial: the model has defaults or integer leaves or depth>=2 (every configured polyhedron "
        "counts); distinct by recipe digest"
        ' Also: models returned by assume/reduce/negate, configurators packed after use, polyhedra with custom row index, dtype and coefficients beyond 32 bits, a second unpack after the first copy was changed in place.')
BUDGET = {"quick": (12, 660, 90), "thorough": (16, 2200, 1200)}
PYTEST = True     # thorough tier also runs the repository's own tests under these monitors
MANDATORY = ["judged:proposition:structure", "judged:proposition:text", "judged:proposition:queries", "judged:polyhedron:structure",
             "judged:polyhedron:select", "judged:polyhedron:writeable", "contract:AtLeast.to_b64", "contract:ge_polyhedron_config.to_b64", "count:with-defaults", "count:xnor-or-imply", "count:derived-by-assume", "count:derived-by-reduce", "count:packed-after-use", "judged:second-unpack-independent-of-first", "count:not-validated-models"]

_n = 0


def _rng(ctx):
    global _n
    _n += 1
    return random.Random(ctx.seed * 1000003 + _n)


def extras(obj):
    """attributes beyond the common digest that classes add (Imply.condition/consequence, XNor.arguments)"""
    out = []
    stack, seen = [obj], set()
    while stack:
        n = stack.pop()
        if id(n) in seen or adapters.is_leaf(n):
            continue
        seen.add(id(n))
        for a in ("condition", "consequence"):
            if hasattr(n, a):
                out.append((n.id, a, digest.state(getattr(n, a))))
        if hasattr(n, "arguments"):
            out.append((n.id, "arguments", tuple(digest.state(x) for x in n.arguments)))
        stack.extend(n.propositions)
    return sorted(out, key=repr)


def battery(m, seed, is_cfg):
    """answers of one object to a fixed list of queries (deterministic in `seed`)"""
    rng = random.Random(seed)
    out = []
    g, top, info = adapters.graph_of(m)
    ids, bounds = common.leaf_box(g, top)
    import copy
    for _ in range(6):
        x = {i: rng.randint(lo, hi) for i, (lo, hi) in zip(ids, bounds)}
        out.append(("evaluate", digest.result(copy.deepcopy(m).evaluate(dict(x)))))
    out.append(("evaluate_propositions", digest.result(copy.deepcopy(m).evaluate_propositions({i: lo for i, (lo, hi) in zip(ids, bounds)}))))
    out.append(("errors", tuple(map(str, m.errors()))))
    try:
        out.append(("to_json", json.dumps(m.to_json(), sort_keys=True)))
    except TypeError as e:
        out.append(("to_json", "TypeError"))
    if not info["prefixed"]:
        out.append(("to_ge_polyhedron", digest.array_state(m.to_ge_polyhedron(True))))
    out.append(("flatten", tuple(digest.state(x) for x in m.flatten())))
    if is_cfg:
        try:
            gp = m.ge_polyhedron
            out.append(("ge_polyhedron", digest.array_state(gp)))
            ids_ = [v.id for v in gp.variables][1:]
            if len(ids_) <= 14:
                pr_ = [{rng.choice(ids_): rng.choice([-1, 1, 2])} for _ in range(2)] if ids_ else [{}]
                out.append(("select", digest.result([(dict(a), b, c) for a, b, c in m.select(*pr_, solver=confgen.exact_solver_factory({}))])))
        except BaseException as e:     # noqa
            out.append(("ge_polyhedron/select", "exception:" + type(e).__name__))
        out.append(("default_prios", tuple(sorted((repr(k), v) for k, v in m.default_prios.items()))))
        c14.clear_caches()
        out.append(("leafs", tuple(digest.state(x) for x in m.leafs())))
        c14.clear_caches()
    return out


def prop_post(pre, args, kwargs, result):
    ctx = monitor.CTX
    self = args[0]
    if adapters.is_leaf(self):
        raise monitor.OutOfScope()
    if adapters.validated(self, need_no_prefixed=False) is None:
        # a model that validation rejects can still be packed; the copy must have the same structure, text and errors()
        from . import c10
        if c10.has_cycle_objects(self):
            raise monitor.OutOfScope()
        ctx.count("count:not-validated-models")
        back = ctx.call("from_b64", pg.from_b64, result)
        s1, s2 = digest.state(self), digest.state(back)
        ctx.check(s1 == s2 and type(back) is type(self), "proposition:structure", lambda: {"model": adapters.model_text(self), "diff": digest.first_diff(s1, s2)})
        ctx.check(self.to_text() == back.to_text() and sorted(map(str, self.errors())) == sorted(map(str, back.errors())), "proposition:text",
                  lambda: {"before": self.to_text(), "after": back.to_text()})
        return True
    back = ctx.call("from_b64", pg.from_b64, result)
    wit = {"recipe": (ctx.case or {}).get("recipe"), "model": adapters.model_text(self)}
    s1, s2 = digest.state(self), digest.state(back)
    ctx.check(s1 == s2 and type(back) is type(self) and extras(self) == extras(back), "proposition:structure",
              lambda: dict(wit, diff=digest.first_diff(s1, s2), types=[type(self).__name__, type(back).__name__]))
    ctx.check(self.to_text() == back.to_text(), "proposition:text", lambda: dict(wit, before=self.to_text(), after=back.to_text()))
    is_cfg = isinstance(self, cc.StingyConfigurator)
    seed = _rng(ctx).getrandbits(32)
    b1 = battery(self, seed, is_cfg)
    b2 = battery(back, seed, is_cfg)
    bad = next(((q1[0], q1[1], q2[1]) for q1, q2 in zip(b1, b2) if q1 != q2), None)
    ctx.judged("proposition:queries", len(b1) - 1)
    ctx.check(bad is None, "proposition:queries", lambda: dict(wit, query=bad[0], original=repr(bad[1])[:600], copy=repr(bad[2])[:600]))
    g, top, info = adapters.graph_of(self)
    # unpacking the same string again, after the first copy was changed in place, must still give the original
    comp = [c for c in refmodel.compounds(g, top) if c != top]
    if comp:
        import copy as _copy
        try:
            back.evaluate({comp[0]: 0})          # the known in-place rebinding (C09) on the FIRST copy only
        except BaseException:    # noqa
            pass
        again = ctx.call("from_b64", pg.from_b64, result)
        s3 = digest.state(again)
        ctx.check(s3 == s1, "second-unpack-independent-of-first", lambda: dict(wit, diff=digest.first_diff(s1, s3), note="the first unpacked copy had been changed in place"))
    has_def = any(getattr(o, "default", None) for o in info["objects"].values())
    if has_def:
        ctx.count("count:with-defaults")
    if any(isinstance(o, (pg.XNor, pg.Imply)) for o in info["objects"].values()):
        ctx.count("count:xnor-or-imply")
    if has_def or refmodel.depth(g, top) >= 2 or any(tuple(g[i]["b"]) != (0, 1) for i in refmodel.leaves(g, top)):
        ctx.nt(refmodel.shape_digest(g, top))
    ctx.sample({"recipe": (ctx.case or {}).get("recipe"), "b64_length": len(result), "queries": len(b1)})
    return True


def poly_post(pre, args, kwargs, result):
    ctx = monitor.CTX
    self = args[0]
    back = ctx.call("ge_polyhedron_config.from_b64", pnd.ge_polyhedron_config.from_b64, result)
    s1, s2 = digest.array_state_full(self), digest.array_state_full(back)          # "variables": the column objects themselves, with class and structure
    ctx.check(s1 == s2 and type(back) is type(self), "polyhedron:structure",
              lambda: {"recipe": (ctx.case or {}).get("recipe"), "diff": digest.first_diff(s1, s2), "types": [type(self).__name__, type(back).__name__]})
    ids = [v.id for v in self.variables][1:]
    box = [(int(v.bounds.lower), int(v.bounds.upper)) for v in self.variables][1:]
    if refmodel.box_size(box, 1 << 16) <= (1 << 16):
        rng = _rng(ctx)
        prios = [{rng.choice(ids): rng.choice([-2, -1, 1, 2, 3]) for _ in range(rng.randint(0, 3))} for _ in range(2)] if ids else [{}]
        r1 = [(digest.result(a), b, c) for a, b, c in self.select(*[dict(p) for p in prios], solver=confgen.exact_solver_factory({}))]
        r2 = [(digest.result(a), b, c) for a, b, c in back.select(*[dict(p) for p in prios], solver=confgen.exact_solver_factory({}))]
        ctx.check(r1 == r2, "polyhedron:select", lambda: {"recipe": (ctx.case or {}).get("recipe"), "prios": prios, "original": r1, "copy": r2})
    # "answers every query identically" includes queries that write: the copy must be as writeable as the original, and a solver
    # that uses the polyhedron as work space (negates it in place and restores it) must work on both
    ctx.check(bool(numpy.asarray(back).flags.writeable) == bool(numpy.asarray(self).flags.writeable), "polyhedron:writeable",
              lambda: {"original_writeable": bool(numpy.asarray(self).flags.writeable), "copy_writeable": bool(numpy.asarray(back).flags.writeable)})

    def in_place_solver(poly, objs):
        numpy.negative(poly, out=poly)
        numpy.negative(poly, out=poly)
        return confgen.exact_solver_factory({})(poly, objs)
    if refmodel.box_size(box, 1 << 12) <= (1 << 12) and numpy.asarray(self).flags.writeable:
        def ans(P):
            try:
                return [(digest.result(a), b, c) for a, b, c in P.select({}, solver=in_place_solver)]
            except BaseException as e:     # noqa
                return "exception:" + type(e).__name__
        a1, a2 = ans(self), ans(back)
        ctx.check(a1 == a2, "polyhedron:select(in-place solver)", lambda: {"original": repr(a1)[:300], "copy": repr(a2)[:300]})
    ctx.nt(monitor.digest(s1))
    return True


def install(ctx):
    monitor.attach(pg.AtLeast, "to_b64", prop_post, None)
    monitor.attach(pnd.ge_polyhedron_config, "to_b64", poly_post, None)


def gen_case(rng, tier, ctx, i):
    if rng.random() < 0.06:
        from . import c10
        return {"ill": rng.choice(c10.ILL), "seed": rng.getrandbits(32), "cfg": rng.random() < 0.5}
    if tier == "thorough" and i == 1 and ctx.seed % 1000 == 0:
        return {"big": 9000, "cfg": False}            # nothing in the statement bounds the size of the proposition
    if rng.random() < 0.2:
        from . import polygen
        p = polygen.gen_poly(rng, allow_int16=False, narrow=False)
        if rng.random() < 0.3:
            # coefficients beyond 32 bits (e.g. big-M rows of variables with very wide bounds)
            for row in p["M"]:
                j = rng.randrange(len(row))
                row[j] = rng.choice([3_000_000_000, -2_999_999_995, 2 ** 40 + 1, -(2 ** 33)])
        if p["index"] is None or rng.random() < 0.5:
            p["index"] = ["row-%d" % k for k in rng.sample(range(20), len(p["M"]))]       # a row index that is not the default one
        return {"poly": p, "dpv": [rng.choice([-1, -1, -2, 0, 3]) for _ in p["ids"]], "dtype": rng.choice(["int64", "int64", "int32"])}
    if rng.random() < 0.4:
        return {"recipe": confgen.gen_config(rng, cid=rng.random() < 0.7), "cfg": True, "seed": rng.getrandbits(32)}
    o = common.varied_opts(rng, tier)
    rec = common.model_case(rng, tier, o)
    if rec is None:
        return None
    return {"recipe": rec, "cfg": False, "seed": rng.getrandbits(32)}


def run_case(case, ctx):
    if "ill" in case:
        from . import c10
        m = c10.build_ill(case["ill"], random.Random(case["seed"]))
        if case["cfg"]:
            m = cc.StingyConfigurator(m, "zz", id="cfg")
        ctx.call("to_b64", m.to_b64)
        return
    if "big" in case:
        n = case["big"]
        rules = [pg.Imply(pg.All("c%d" % k, "d%d" % k), cc.Xor("x%d" % k, "y%d" % k, default=["x%d" % k])) for k in range(n)]
        m = cc.StingyConfigurator(*rules, id="big")
        ctx.count("count:large-model")
        with monitor.guard():              # the full round-trip monitor (digests, battery) would be too slow on a model of this size
            s = m.to_b64()
        back = ctx.call("from_b64", pg.from_b64, s)
        ctx.check(back.to_text() == m.to_text() and back.id == m.id and len(back.propositions) == n, "proposition:text",
                  lambda: {"note": "large model (%d rules, b64 length %d)" % (n, len(s))})
        return
    if "poly" in case:
        from . import polygen
        base = polygen.build_poly(case["poly"])
        P = pnd.ge_polyhedron_config(numpy.asarray(base), default_prio_vector=numpy.array(case["dpv"]), variables=list(base.variables),
                                     index=list(base.index), dtype=getattr(numpy, case["dtype"]))
        ctx.call("polyhedron.to_b64", P.to_b64)
        return
    c14.clear_caches()
    m = recipes.fresh(case["recipe"])
    if adapters.is_leaf(m) or adapters.validated(m) is None:
        raise monitor.OutOfScope()
    if case["cfg"] and random.Random(case.get("seed", 1)).random() < 0.5:
        # the configurator has been used before it is packed (its polyhedron was asked for, it was solved)
        ctx.count("count:packed-after-use")
        c14.clear_caches()
        pp = ctx.call("ge_polyhedron", lambda: m.ge_polyhedron)
        ids_ = [v.id for v in pp.variables][1:]
        if len(ids_) <= 14:
            ctx.call("select", lambda: list(m.select({}, solver=confgen.exact_solver_factory({}))))
    ctx.call("to_b64", m.to_b64)
    if case["cfg"] and random.Random(case.get("seed", 1) + 7).random() < 0.4:
        # the same object is packed again after one of its defaulted option groups was replaced in place by its hand-nested plain twin
        # (same ids, same text form; other class, no default, no priority): the string is about the object as it is now
        import puan.modules.configurator as ccm
        for i_, r_ in enumerate(list(m.propositions)):
            if type(r_) is ccm.Any and getattr(r_, "default", None) and len(r_.propositions) == 2 and any(hasattr(x, "prio") for x in r_.propositions):
                helper = next(x for x in r_.propositions if hasattr(x, "prio"))
                dflt = next(x for x in r_.propositions if x is not helper)
                twin = pg.Any(dflt, pg.Any(*helper.propositions), variable=r_.variable)
                if twin.propositions and sorted(p_.id for p_ in twin.propositions) == sorted(p_.id for p_ in r_.propositions):
                    m.propositions[i_] = twin
                    ctx.count("count:repacked-after-in-place-edit")
                    ctx.call("to_b64", m.to_b64)
                break
        return
    # models returned by the library itself (assume / reduce / negate) are propositions too
    rng = random.Random(case.get("seed", 0))
    g, top, info = adapters.graph_of(m)
    lv = refmodel.leaves(g, top)
    if lv and not case["cfg"]:
        d = {l: rng.randint(*g[l]["b"]) for l in rng.sample(lv, rng.randint(1, len(lv))) if g[l]["b"][1] - g[l]["b"][0] < 100}
        am = ctx.call("assume", recipes.fresh(case["recipe"]).assume, d)
        if not adapters.is_leaf(am) and adapters.validated(am, need_no_prefixed=False) is not None:
            ctx.count("count:derived-by-assume")
            ctx.call("to_b64", am.to_b64)
            rm = ctx.call("reduce", am.reduce)
            if not adapters.is_leaf(rm) and adapters.validated(rm, need_no_prefixed=False) is not None:
                ctx.count("count:derived-by-reduce")
                ctx.call("to_b64", rm.to_b64)
        ng = ctx.call("negate", recipes.fresh(case["recipe"]).negate)
        if adapters.validated(ng, need_no_prefixed=False) is not None:
            ctx.call("to_b64", ng.to_b64)
    if case["cfg"]:
        c14.clear_caches()
        p = ctx.call("ge_polyhedron", lambda: m.ge_polyhedron)
        ctx.call("polyhedron.to_b64", p.to_b64)
        c14.clear_caches()
