"""C16 JSON round trip preserves meaning, explicit ids and defaults.

Monitor: post-condition on the real to_json of every class in the JSON class map (one wrapper on AtLeast.to_json and
on each override): for top-level calls on a validated model the JSON value is pushed through json.dumps/loads and the
matching from_json, and the result is compared with the receiver:
  same leaf ids and bounds; same truth value on every judged assignment (reference truth of the original vs library
  evaluate of the copy); same set of explicit ids, and no id in the JSON for generated ones (explicit = the recipe's
  ids when the call comes from the workload); for configurators equal default priorities and polyhedron modulo the
  names of generated helper ids.
"""
import json
import random

import numpy
import puan
import puan.logic.plog as pg
import puan.modules.configurator as cc

from .. import adapters, digest, monitor, recipes, refmodel
from . import common, confgen, c14

PROP = "C16"
RULE = ("cases: constructor-built plog models of every class of the JSON class map (All, Any, AtLeast incl. explicit sign, AtMost, Xor, "
        "ExactlyOne, XNor, Imply, Not, variable leaves incl. integer bounds, bare strings), nested to depth 4, explicit and generated ids, and "
        "configurators with defaulted Any/Xor; to_json -> json.dumps -> json.loads -> from_json. non-trivial: depth>=2; distinct by recipe digest"
        ' Also: defaults outside the alternatives, defaulted rules nested under plain connectives, implications whose condition is a threshold over one leaf.')
BUDGET = {"quick": (12, 660, 90), "thorough": (16, 2500, 1200)}
CLASSES = ["All", "Any", "AtLeast", "AtMost", "Xor", "ExactlyOne", "XNor", "Imply", "Not", "ccAny", "ccXor", "Stingy"]
PYTEST = True     # thorough tier also runs the repository's own tests under these monitors
MANDATORY = ["judged:defaults-kept", "judged:same-leaves", "judged:same-truth", "judged:explicit-ids-kept", "judged:no-id-for-generated", "judged:config:default-prios",
             "judged:config:polyhedron"] + ["count:class:" + c for c in CLASSES]

_n = 0


def _rng(ctx):
    global _n
    _n += 1
    return random.Random(ctx.seed * 1000003 + _n)


def json_ids(d, acc=None):
    """ids attached to compound entries of a JSON value"""
    acc = [] if acc is None else acc
    if isinstance(d, dict):
        compound = any(k in d for k in ("propositions", "condition", "consequence", "proposition"))
        if compound and "id" in d:
            acc.append(d["id"])
        for k in ("propositions", "default"):
            for x in d.get(k, []) or []:
                if k == "propositions":
                    json_ids(x, acc)
        for k in ("condition", "consequence", "proposition"):
            if k in d:
                json_ids(d[k], acc)
    return acc


def roundtrip_post(pre, args, kwargs, result):
    ctx = monitor.CTX
    self = args[0]
    if adapters.is_leaf(self):
        raise monitor.OutOfScope()
    v = adapters.validated(self)
    if v is None:
        raise monitor.OutOfScope()
    graph, top, info = v
    is_cfg = isinstance(self, cc.StingyConfigurator)
    case = ctx.case or {}
    wit = {"recipe": case.get("recipe"), "model": adapters.model_text(self) if not case.get("recipe") else None, "json": result}
    try:
        text = json.dumps(result)
    except TypeError:
        # models returned by assume()/reduce() carry numpy integers; the statement quantifies over built models
        ctx.count("json.dumps-not-serialisable(observation)")
        raise monitor.OutOfScope()
    data = json.loads(text)
    if is_cfg:
        c14.clear_caches()
        back = ctx.call("StingyConfigurator.from_json", cc.StingyConfigurator.from_json, data)
    else:
        back = ctx.call("from_json", pg.from_json, data)
    facts = mechanism_facts(self, graph, top, info)
    if not case.get("recipe"):
        # calls observed while the repository's own tests run: their strategies hand one-shot iterables to `default=`, which
        # leaves a defaulted Xor whose inner helper received no default (an object no list-valued default can produce); and a copy
        # that is not well defined cannot be analysed without the recipe -- both are counted, not judged
        for o in info["objects"].values():
            if isinstance(o, cc.Xor) and getattr(o, "default", None):
                inner = [c for c in o.propositions if isinstance(c, cc.Any)]
                if not inner or not getattr(inner[0], "default", None):
                    ctx.count("pytest-source:inconsistent-default-object(not judged)")
                    raise monitor.OutOfScope()
        if not adapters.is_leaf(back) and not adapters.well_defined(back)[0]:
            ctx.count("pytest-source:copy-not-well-defined(not judged)")
            raise monitor.OutOfScope()
    if adapters.is_leaf(back):
        ctx.check(False, "same-leaves", lambda: dict(wit, note="round trip returned a bare variable", back=repr(back)), facts)
        return True
    g2, t2, i2 = adapters.graph_of(back)
    if not adapters.acyclic(g2, t2):
        ctx.check(False, "same-leaves", lambda: dict(wit, note="the copy has a cyclic id graph", copy=adapters.model_text(back)), facts)
        return True
    l1 = {i: tuple(graph[i]["b"]) for i in refmodel.leaves(graph, top)}
    l2 = {i: tuple(g2[i]["b"]) for i in refmodel.leaves(g2, t2)}
    ctx.check(l1 == l2, "same-leaves", lambda: dict(wit, original_leaves={str(k): v_ for k, v_ in l1.items()}, copy_leaves={str(k): v_ for k, v_ in l2.items()}), facts)
    if l1 != l2:
        return True
    # same truth on every judged assignment
    ids, bounds = common.leaf_box(graph, top)
    order = refmodel.topo(graph, top)
    rng = _rng(ctx)
    bad = None
    n = 0
    for x, _ex in refmodel.assignments(ids, bounds, rng, common.point_cap(ctx.tier, 64, 512)):
        want = refmodel.truth(graph, top, x, order=order)[top]
        got = common.const(back.evaluate(dict(x)))
        n += 1
        if got != want:
            bad = {"x": x, "original": want, "copy": got}
            break
    ctx.judged("same-truth", max(n - 1, 0))
    ctx.check(bad is None, "same-truth", lambda: dict(wit, bad=bad, copy=adapters.model_text(back)), facts)
    # explicit ids
    exp1 = {i for i in graph if not graph[i]["leaf"] and i not in info["generated"]}
    exp2 = {i for i in g2 if not g2[i]["leaf"] and i not in i2["generated"]}
    recipe_explicit = None
    if case.get("recipe") is not None and case.get("top_call"):
        recipe_explicit = {nd["id"] for nd in refmodel.recipe_nodes(case["recipe"]) if nd.get("id") and nd["k"] not in ("var", "str")}
    ctx.check(exp1 <= exp2 and (recipe_explicit is None or recipe_explicit <= exp2), "explicit-ids-kept",
              lambda: dict(wit, explicit_before=sorted(map(str, exp1)), explicit_after=sorted(map(str, exp2)), recipe_explicit=sorted(recipe_explicit or [])), facts)
    emitted = set(json_ids(data))
    base = recipe_explicit if recipe_explicit is not None else exp1
    ctx.check(emitted <= base, "no-id-for-generated", lambda: dict(wit, emitted_ids=sorted(map(str, emitted)), explicit=sorted(map(str, base))), facts)
    # defaults are kept (node by node, modulo the names of generated ids)
    d1, d2 = defaults_of(self, graph, top, info), defaults_of(back, g2, t2, i2)
    if is_cfg:        # the statement asks for the defaults of configurators (plog.from_json does not know the configurator classes)
        # every default of the original is still there (the copy may carry the same default on a helper node as well: the
        # inner Any of a defaulted Xor receives it from the Xor -- seen with models built by the repository's own tests)
        ctx.check(set(map(repr, d1)) <= set(map(repr, d2)), "defaults-kept", lambda: dict(wit, before=d1, after=d2), facts)
    if is_cfg:
        c14.clear_caches()
        p1 = self.to_ge_polyhedron(True)
        p2 = back.to_ge_polyhedron(True)
        d1, d2 = self.default_prios, back.default_prios
        # generated helper ids may be regenerated under another name (the id digest contains the sign as it was passed), so two
        # occurrences of one definition can end up under two ids in the copy: priorities are compared as a set of (canonical
        # name, priority); polyhedra only when the canonical column names are unique on both sides
        ctx.check(set(digest.canon_prios(self, d1)) == set(digest.canon_prios(back, d2)), "config:default-prios",
                  lambda: dict(wit, before=digest.canon_prios(self, d1), after=digest.canon_prios(back, d2)), facts)
        c1 = digest.canon_poly(self, pnd_cfg(self, p1))
        c2 = digest.canon_poly(back, pnd_cfg(back, p2))
        if len(set(c1[0])) == len(c1[0]) and len(set(c2[0])) == len(c2[0]):
            ctx.check(c1 == c2, "config:polyhedron", lambda: dict(wit, before=c1, after=c2), facts)
        else:
            ctx.count("config:polyhedron:duplicate-definition-under-two-generated-ids(not judged)")
        c14.clear_caches()
    if refmodel.depth(graph, top) >= 2:
        ctx.nt(refmodel.recipe_digest(case["recipe"]) if case.get("recipe") else refmodel.shape_digest(graph, top))
    ctx.sample({"recipe": case.get("recipe"), "json": data, "assignments": n})
    return True


def defaults_of(model, graph, top, info):
    names = refmodel.canon_names(graph, top, info["generated"])
    out = []
    stack, seen = [model], set()
    while stack:
        n = stack.pop()
        if id(n) in seen or adapters.is_leaf(n):
            continue
        seen.add(id(n))
        d = getattr(n, "default", None)
        if d:
            out.append((names.get(n.id, str(n.id)), tuple(sorted(str(getattr(x, "id", x)) for x in d))))
        stack.extend(n.propositions)
    return sorted(set(out))


def pnd_cfg(cfg, poly):
    import puan.ndarray as pnd
    return pnd.ge_polyhedron_config(poly, default_prio_vector=poly.A.construct(cfg.default_prios), variables=poly.variables, index=poly.index)


def mechanism_facts(model, graph, top, info):
    """facts for known-finding classifiers (read from the object graph, not from the library's output)"""
    facts = {"exact_atleast_with_deviating_sign": False, "xnor_with_compound_args": False, "prio_ambiguous_shared_helper": False}
    # the same id carried by two objects of which only one is tagged as a non-default branch (`prio`)
    by_id = {}
    stack, seen = [model], set()
    while stack:
        n = stack.pop()
        if id(n) in seen:
            continue
        seen.add(id(n))
        if not adapters.is_leaf(n):
            by_id.setdefault(n.id, set()).add(getattr(n, "prio", None))
            stack.extend(n.propositions)
    facts["prio_ambiguous_shared_helper"] = any(len(v) > 1 for v in by_id.values())
    for nid, obj in info["objects"].items():
        if adapters.is_leaf(obj):
            continue
        if type(obj) is pg.AtLeast and int(obj.sign) != (1 if obj.value > 0 else -1):
            facts["exact_atleast_with_deviating_sign"] = True
        if type(obj) is pg.XNor:
            facts["xnor_with_compound_args"] = facts["xnor_with_compound_args"] or any(
                not adapters.is_leaf(g) for c in obj.propositions if not adapters.is_leaf(c) for g in c.propositions)
    return facts


TOJSON_OWNERS = [pg.AtLeast, pg.AtMost, pg.All, pg.Any, pg.Imply, pg.Xor, pg.XNor, cc.Any, cc.Xor, cc.StingyConfigurator]


def install(ctx):
    # AtLeast.to_json and every override in a subclass (AtMost, All, Any, Imply, Xor, XNor, cc.Any, cc.Xor, StingyConfigurator, ...)
    monitor.attach(pg.AtLeast, "to_json", roundtrip_post, None, label="to_json", top_only=True)


def known_witness():
    import json, os
    from .. import env
    try:
        kf = json.load(open(os.path.join(env.VERIF, "known_findings.json")))
        for f in kf["findings"]:
            if f.get("property") == "C16" and f.get("key") == "prio-ambiguous-shared-helper":
                return f["witness"]["recipe"]
    except Exception:
        return None


def int_alternative_case(rng):
    items = rng.sample(confgen.ITEMS[:6], 3)
    b = rng.choice([[0, 3], [-2, 2], [0, 2]])
    args = [{"k": "var", "id": items[0], "b": b}] + [confgen.V(i_) for i_ in items[1:]]
    rule = {"k": rng.choice(["ccAny", "ccAny", "ccXor"]), "id": rng.choice([None, "RI"]), "args": args, "default": [items[0]]}
    rules = [rule]
    if rng.random() < 0.5:
        rules.append({"k": "Imply", "id": None, "args": [{"k": "All", "id": None, "args": [confgen.V("g")]}, dict(rule, id=None, args=[dict(a) for a in args])]} if False else
                     {"k": "AtMost", "id": None, "args": [confgen.V("g"), confgen.V("h")], "value": 1})
    return {"recipe": {"k": "Stingy", "id": "main", "args": rules}, "top_call": True}


def gen_case(rng, tier, ctx, i):
    if rng.random() < 0.06:
        return int_alternative_case(rng)
    if i == 0 and ctx.seed % 1000 == 0:
        w = known_witness()            # the recorded witness of the open finding is replayed in every run
        if w is not None:
            return {"recipe": w, "top_call": True}
    if rng.random() < 0.3:
        return {"recipe": confgen.gen_config(rng, cid=rng.random() < 0.7), "top_call": True}
    if rng.random() < 0.1:
        # implications whose condition is a threshold over a single leaf / a small node with an unusual value or sign
        leaf = lambda i: {"k": "var", "id": i, "b": list(rng.choice([(0, 1), (0, 4), (-2, 2)]))}
        cond = {"k": "AtLeast", "id": rng.choice([None, None, "CND"]), "args": [leaf("t")] + ([leaf("u")] if rng.random() < 0.3 else []),
                "value": rng.choice([0, 1, 2, 3, -1]), "sign": rng.choice([None, None, 1, -1])}
        cons = rng.choice([leaf("y"), {"k": "Any", "id": None, "args": [leaf("y"), leaf("z")]}])
        rec = {"k": "Imply", "id": rng.choice([None, "IMP"]), "args": [cond, cons]}
        if rng.random() < 0.4:
            rec = {"k": rng.choice(["All", "Any"]), "id": None, "args": [rec, leaf("w")]}
        return {"recipe": rec, "top_call": True}
    o = common.varied_opts(rng, tier, p_share=0.05, p_copy=0.05, p_huge=0.05)
    if rng.random() < 0.3:
        o.kinds = ["AtLeast", "AtLeastS", "XNor", "Imply", "Not", "AtMost", "Xor", "ExactlyOne"]
    rec = common.model_case(rng, tier, o)
    if rec is None:
        return None
    return {"recipe": rec, "top_call": True}


def run_case(case, ctx):
    c14.clear_caches()
    m = recipes.fresh(case["recipe"])
    if adapters.is_leaf(m):
        raise monitor.OutOfScope()
    common.domain(m, recipe=case["recipe"])          # validated, and the leaves carry the bounds they were declared with (what is written is then the declared model)
    for n in refmodel.recipe_nodes(case["recipe"]):
        if n["k"] in CLASSES:
            ctx.count("count:class:" + n["k"])
    ctx.call("to_json", m.to_json)
