"""C07 Assuming values is equivalent to evaluating with them.

Monitor: post-condition on the real AtLeast.assume (top-level calls; the library's own recursion is counted,
not judged). The snapshot takes a deep copy of the receiver *before* the call, so the two sides of the equation
run on separate objects:    result.evaluate(R)  ==  pristine_copy.evaluate(D u R)
for several interpretations R of the remaining leaves, and the bounds of every node of the assumed model must
contain the reference truth value under every completion that is consistent with D.
"""
import copy
import random

import numpy
import puan
import puan.logic.plog as pg

from .. import adapters, monitor, reach, recipes, refmodel
from . import common, c06

PROP = "C07"
RULE = ("cases: random recipes, assumption dictionaries over leaves and sub-proposition ids with constants and intervals "
        "(int, numpy.int64, tuple, Bounds), then several total interpretations R of the remaining leaves. non-trivial: D and "
        "R both non-empty and the assumed model is still a compound; distinct by (shape digest, which ids D names and how)"
        ' Also: sequences of assumptions on ONE base object (all naming the same sub-proposition ids) with the kept assumed models re-judged afterwards, hostile twins.')
BUDGET = {"quick": (12, 280, 90), "thorough": (16, 900, 1200)}
PYTEST = True     # thorough tier also runs the repository's own tests under these monitors
MANDATORY = ["judged:assume-then-evaluate==evaluate-union", "judged:bounds-contain", "contract:AtLeast.assume",
             "count:D-names-compound-constant", "count:D-names-compound-interval", "count:D-interval-leaf",
             "judged:kept-assumed-model-still-equivalent"]

_n = 0


def _rng(ctx):
    global _n
    _n += 1
    return random.Random(ctx.seed * 1000003 + _n)


def snap(args, kwargs):
    self = args[0]
    D = args[1] if len(args) > 1 else kwargs.get("new_variable_bounds")
    if not isinstance(D, dict):
        return None
    v = adapters.validated(self, need_no_prefixed=False)
    if v is None:
        return None
    graph, top, info = v
    box, ov, ivl = {}, {}, {}
    for nid, n in graph.items():
        if n["leaf"]:
            box[nid] = tuple(n["b"])
    for k, val in D.items():
        if k not in graph:
            continue
        nv = c06.norm_value(val)
        if nv is None or nv[0] > nv[1]:
            return None
        if graph[k]["leaf"]:
            lo, hi = graph[k]["b"]
            if nv[0] < lo or nv[1] > hi:
                return None
            box[k] = nv
        else:
            if nv[0] < 0 or nv[1] > 1:
                return None
            if nv[0] == nv[1]:
                ov[k] = nv[0]
            else:
                if graph[k]["b"][0] == graph[k]["b"][1]:
                    return None      # open bounds for a node fixed by its own bounds: not decided by the statement
                ivl[k] = nv
    return graph, top, box, ov, ivl, copy.deepcopy(self), dict(D)


def assume_post(pre, args, kwargs, result):
    ctx = monitor.CTX
    if pre is None:
        raise monitor.OutOfScope()
    graph, top, box, ov, ivl, pristine, D = pre
    rng = _rng(ctx)
    named_leaves = [k for k in D if k in graph and graph[k]["leaf"]]
    if ov:
        ctx.count("count:D-names-compound-constant")
    if ivl:
        ctx.count("count:D-names-compound-interval")
    if any(box[k][0] != box[k][1] for k in named_leaves):
        ctx.count("count:D-interval-leaf")
    facts = {"D_names_compound_interval": bool(ivl), "D_names_compound_constant": bool(ov)}
    # ---- (1) equation on separately held objects -------------------------------------------------
    rest_ids = [i for i in sorted(box, key=repr) if i not in D]
    rest_bounds = [box[i] for i in rest_ids]
    cap = common.point_cap(ctx.tier, 12, 64)
    bad = None
    n = 0
    for R, _ex in refmodel.assignments(rest_ids, rest_bounds, rng, cap):
        a = result.evaluate(dict(R))
        union = dict(D)
        union.update(R)
        b = copy.deepcopy(pristine).evaluate(union)
        n += 1
        if common.as_tuple(a) != common.as_tuple(b):
            bad = {"R": R, "assume_then_evaluate": common.as_tuple(a), "evaluate_union": common.as_tuple(b)}
            break
    ctx.judged("assume-then-evaluate==evaluate-union", max(n - 1, 0))
    ctx.check(bad is None, "assume-then-evaluate==evaluate-union",
              lambda: {"model": c06.gtext(graph, top), "D": D, "bad": bad, "assumed": adapters.model_text(result)}, facts)
    # ---- (2) bounds of the assumed model contain every attainable value ---------------------------
    g2, t2, _ = adapters.graph_of(result) if not adapters.is_leaf(result) else ({result.id: {"leaf": True, "b": common.as_tuple(result.bounds), "sign": 1, "value": 0, "ch": []}}, result.id, None)
    ids = sorted(box, key=repr)
    order = refmodel.topo(graph, top)
    bad2 = None
    n2 = 0
    for x, _ex in refmodel.assignments(ids, [box[i] for i in ids], rng, common.point_cap(ctx.tier, 64, 512)):
        val = refmodel.truth(graph, top, x, ov, order=order)
        n2 += 1
        for nid, node in g2.items():
            if nid in val and not (nid in ivl and not (ivl[nid][0] <= val[nid] <= ivl[nid][1])):
                lo, hi = node["b"]
                if nid in D and nid in graph and graph[nid]["leaf"]:
                    continue      # mentioned variables are not the subject of the second sentence
                if not (lo <= val[nid] <= hi):
                    bad2 = {"completion": x, "node": nid, "bounds_in_assumed_model": [lo, hi], "value": val[nid]}
                    break
        if bad2:
            break
    ctx.judged("bounds-contain", max(n2 - 1, 0))
    ctx.check(bad2 is None, "bounds-contain", lambda: {"model": c06.gtext(graph, top), "D": D, "bad": bad2, "assumed": adapters.model_text(result)}, facts)
    if D and rest_ids and not adapters.is_leaf(result):
        ctx.nt((refmodel.shape_digest(graph, top), tuple(sorted((repr(k), "c" if k in ov else "i" if k in ivl else "l") for k in D if k in graph))))
    ctx.sample({"model": c06.gtext(graph, top), "D": D, "assumed": adapters.model_text(result), "R_tried": n})
    return True


def install(ctx):
    reach.watch("assume.rebinds-own-variable", pg.AtLeast.assume, "self.variable = puan.variable(")
    monitor.attach(pg.AtLeast, "assume", assume_post, snap, top_only=True)


def gen_case(rng, tier, ctx, i):
    if rng.random() < 0.025:
        rec = common.deep_chain(rng, rng.randint(34, 46))        # very deep nesting
        ctx.count("count:deep-models")
        return {"recipe": rec, "seed": rng.getrandbits(32)}
    o = common.varied_opts(rng, tier, p_window=0.08)
    if rng.random() < 0.03:
        from . import c03
        sc = c03.special_case(rng, ctx)          # thresholds of large magnitude met/missed by one; sub-propositions without children
        sc.pop("interps", None)
        return sc
    if rng.random() < 0.06:
        from . import confgen
        ctx.count("count:configurator-models")
        rec = confgen.gen_config(rng)
        if rng.random() < 0.5:
            named = [n for n in refmodel.recipe_nodes(rec)[1:] if n.get("id") and n["k"] not in ("var", "str", "ref", "Not", "Stingy")]
            if named:
                rng.choice(named)["fix"] = rng.choice([0, 1])          # a rule whose own variable is already settled
        return {"recipe": rec, "seed": rng.getrandbits(32)}     # a configurator is a model too (often one that has already answered a structural question)
    rec = common.model_case(rng, tier, o)
    if rec is None:
        return None
    if rng.random() < 0.15:
        # a node (possibly the root) whose own variable was settled at construction
        nodes = [n for n in refmodel.recipe_nodes(rec) if n.get("id") and n["k"] not in ("var", "str", "ref", "Not")]
        if nodes:
            rng.choice(nodes)["fix"] = rng.choice([0, 1])
    return common.with_twins(rng, {"recipe": rec, "seed": rng.getrandbits(32)})


def rand_assumption(rng, graph, top):
    d = {}
    for lid in refmodel.leaves(graph, top):
        lo, hi = graph[lid]["b"]
        r = rng.random()
        if r < 0.5:
            continue
        if r < 0.8:
            d[lid] = common.value_form(rng, rng.choice([lo, hi, rng.randint(lo, hi)]))
        else:
            a = rng.choice([lo, rng.randint(lo, hi)])
            b = rng.choice([hi, rng.randint(a, hi)])
            d[lid] = rng.choice([(a, b), puan.Bounds(a, b)])
    comp = [c for c in refmodel.compounds(graph, top)]
    r = rng.random()
    if comp and r < 0.45:
        for c in rng.sample(comp, rng.randint(1, min(2, len(comp)))):
            if rng.random() < 0.6:
                d[c] = common.value_form(rng, rng.choice([0, 1]))
            else:
                d[c] = rng.choice([(0, 1), puan.Bounds(0, 1)])
    return d


def _run_one(case, ctx):
    rng = random.Random(case["seed"])
    m0 = recipes.fresh(case["recipe"])
    if adapters.is_leaf(m0):
        raise monitor.OutOfScope()
    graph, top, info = common.domain(m0, allow_prefixed=True, recipe=case["recipe"])
    if rng.random() < 0.3:
        # one model object, ONE assumption dict that the caller extends in place between the calls: each answer is about the dict as it is now
        m1 = recipes.fresh(case["recipe"])
        held = {}
        for step_ in range(3):
            extra = {k_: v_ for k_, v_ in rand_assumption(rng, graph, top).items() if graph[k_]["leaf"]}
            held.update(extra)
            ctx.count("count:assumption-dict-extended-in-place")
            ctx.call("assume", m1.assume, held)
    for _ in range(3 if ctx.tier == "quick" else 6):
        d = rand_assumption(rng, graph, top)
        m = recipes.fresh(case["recipe"])
        if rng.random() < 0.15 and d and all(isinstance(v, int) and not isinstance(v, bool) for v in d.values()):
            # other mapping types a caller may hold its assumption in (they are dicts): ids that are not keys stay unassumed
            import collections
            d = rng.choice([collections.Counter, lambda d_: collections.defaultdict(int, d_), collections.OrderedDict])(d)
            ctx.count("count:dict-subclass-assumptions")
        ctx.call("assume", m.assume, d)
    # several assumptions on ONE base object (the assumed models are kept alive): each assumed model must still satisfy the
    # equation after the later calls -- the right-hand side is always evaluated on a freshly built model
    if rng.random() < 0.5:
        base = recipes.fresh(case["recipe"])
        kept = []
        comp = [c for c in refmodel.compounds(graph, top) if c != top]
        # every dictionary of the sequence names the same sub-proposition ids C: a call then overwrites whatever an earlier
        # call left on those nodes (the known C09 rebinding), so the sequence itself stays inside C07's statement
        C = rng.sample(comp, rng.randint(1, min(2, len(comp)))) if comp else []
        for j in range(3):
            d = {k_: v_ for k_, v_ in rand_assumption(rng, graph, top).items() if graph[k_]["leaf"]}
            for c in C:
                d[c] = rng.choice([0, 1, (0, 1), puan.Bounds(1, 1), (0, 0), (0, 1)])
            a = ctx.call("assume", base.assume, d)
            kept.append((dict(d), a))
        ids, _b = common.leaf_box(graph, top)
        for d, a in kept:
            rest = [i for i in ids if i not in d]
            for R, _ex in refmodel.assignments(rest, [graph[i]["b"] for i in rest], rng, 4):
                lhs = ctx.call("evaluate(assumed)", a.evaluate, dict(R))
                union = dict(d)
                union.update(R)
                rhs = ctx.call("evaluate(fresh)", recipes.fresh(case["recipe"]).evaluate, union)
                ctx.check(common.as_tuple(lhs) == common.as_tuple(rhs), "kept-assumed-model-still-equivalent",
                          lambda: {"recipe": case["recipe"], "D": d, "R": R, "assumed_then_evaluate": common.as_tuple(lhs), "evaluate_union_on_fresh_model": common.as_tuple(rhs),
                                   "note": "after further assume() calls on the same base object"})


def run_case(case, ctx):
    """the base recipe, then its hostile twins (same ids, bounds/thresholds that collide under the library's hashes)"""
    for k, rec in enumerate(common.recipes_of(case)):
        sub = dict(case, recipe=rec)
        sub.pop("twins", None)
        if k:
            ctx.count("count:twin-runs")
        try:
            _run_one(sub, ctx)
        except monitor.OutOfScope:
            ctx.count("case:out_of_scope" if k == 0 else "twin:out_of_scope")
