"""Deliberate property-breaking edits used to validate the monitors (DESIGN 4.11).
Each entry: (name, property expected to catch it, file, old text, new text). `old` must occur exactly once."""
PLOG = "puan/logic/plog/__init__.py"
ND = "puan/ndarray/__init__.py"
CC = "puan/modules/configurator/__init__.py"
PU = "puan/__init__.py"

BREAKS = [
    # C01 / C02
    ("poly-bias-sign", "C01", PLOG, "                            bias=-1*x.value,\n                            sign=pr.SignPy.Positive if x.sign == puan.Sign.POSITIVE else pr.SignPy.Negative\n                        ) if not issubclass(x.__class__, puan.variable) else None,\n                    ),\n                    flatten_dict.values()\n                )\n            )\n        ).to_ge_polyhedron(active, reduced)",
     "                            bias=x.value,\n                            sign=pr.SignPy.Positive if x.sign == puan.Sign.POSITIVE else pr.SignPy.Negative\n                        ) if not issubclass(x.__class__, puan.variable) else None,\n                    ),\n                    flatten_dict.values()\n                )\n            )\n        ).to_ge_polyhedron(active, reduced)"),
    ("poly-leaf-bounds-01", "C01", PLOG, "                        variable_id_map[x.id][1].bounds.as_tuple(),\n                        pr.AtLeastPy(\n                            list(\n                                map(\n                                    lambda y: variable_id_map[y.id][0], \n                                    x.propositions\n                                )\n                            ),\n                            bias=-1*x.value,\n                            sign=pr.SignPy.Positive if x.sign == puan.Sign.POSITIVE else pr.SignPy.Negative\n                        ) if not issubclass(x.__class__, puan.variable) else None,\n                    ),\n                    flatten_dict.values()\n                )\n            )\n        ).to_ge_polyhedron(active, reduced)",
     "                        (0, 1) if variable_id_map[x.id][1].bounds.lower >= 0 and variable_id_map[x.id][1].bounds.upper > 1000 else variable_id_map[x.id][1].bounds.as_tuple(),\n                        pr.AtLeastPy(\n                            list(\n                                map(\n                                    lambda y: variable_id_map[y.id][0], \n                                    x.propositions\n                                )\n                            ),\n                            bias=-1*x.value,\n                            sign=pr.SignPy.Positive if x.sign == puan.Sign.POSITIVE else pr.SignPy.Negative\n                        ) if not issubclass(x.__class__, puan.variable) else None,\n                    ),\n                    flatten_dict.values()\n                )\n            )\n        ).to_ge_polyhedron(active, reduced)"),
    ("poly-active-ignored", "C02", PLOG, ").to_ge_polyhedron(active, reduced)\n\n        id_variable_map", ").to_ge_polyhedron(False, reduced)\n\n        id_variable_map"),
    # C03
    ("assume-ge-to-gt", "C03", PLOG, "                        ).sum(axis=0) >= self.value\n                    ) * 1,\n                ),\n                sign=self.sign,\n            )\n            return result",
     "                        ).sum(axis=0) > self.value\n                    ) * 1,\n                ),\n                sign=self.sign,\n            )\n            return result"),
    ("variable-evaluate-lower-twice", "C03", PU, "            elif issubclass(val.__class__, tuple):\n                return Bounds(*val)", "            elif issubclass(val.__class__, tuple):\n                return Bounds(val[0], val[0])"),
    # C04
    ("all-value-minus-one-when-4", "C04", PLOG, "super().__init__(value=len(set(propositions)), propositions=propositions, variable=variable)",
     "super().__init__(value=len(set(propositions)) - (len(set(propositions)) == 4), propositions=propositions, variable=variable)"),
    ("cicje-swap-rule-map", "C04", PLOG, '"ONE_OR_NONE": lambda x,id: AtMost(value=1,propositions=x,variable=id),', '"ONE_OR_NONE": lambda x,id: AtMost(value=2,propositions=x,variable=id),'),
    ("cicje-relation-default", "C04", PLOG, '[Any, All][x.get("relation", "ALL") == "ALL"]', '[Any, All][x.get("relation", "ANY") == "ALL"]'),
    ("from-json-default-type", "C04", PLOG, '            return _class_map["AtLeast"].from_json(data, class_map)\n        else:', '            return _class_map["All"].from_json(data, class_map)\n        else:'),
    # C05
    ("negate-value-off", "C05", PLOG, "            negated.value += len(compounds)\n", "            negated.value += max(len(compounds), 2)\n"),
    ("negate-drop-explicit-id", "C05", PLOG, "            variable=None if self.generated_id else self.variable,\n            sign=-1*self.sign,", "            variable=None if (self.generated_id or self.value < 0) else self.variable,\n            sign=-1*self.sign,"),
    # C06
    ("equation-mm-swap", "C06", PLOG, "        min_val = min(can_min_val, can_max_val)\n        max_val = max(can_min_val, can_max_val)", "        min_val = min(can_min_val, can_max_val)\n        max_val = max(can_min_val, can_max_val) - (self.sign < 0 and len(self.propositions) > 2)"),
    ("tautology-gt", "C06", PLOG, "        return self.equation_bounds[0] >= 0", "        return self.equation_bounds[0] >= -1*(len(self.propositions) == 3)"),
    # C07
    ("assume-children-unassumed-bounds", "C07", PLOG, "                                        lambda prop: prop.bounds.as_tuple(),\n                                        assumed_propositions,", "                                        lambda prop: prop.bounds.as_tuple(),\n                                        assumed_propositions if len(assumed_propositions) != 3 else self.propositions,"),
    # C08
    ("reduce-drop-sign", "C08", PLOG, "            ) * self.sign,\n            list(filter(lambda x: x.bounds.constant is None, sub_propositions)),", "            ),\n            list(filter(lambda x: x.bounds.constant is None, sub_propositions)),"),
    ("reduce-keep-constant-one", "C08", PLOG, "            list(filter(lambda x: x.bounds.constant is None, sub_propositions)),", "            list(filter(lambda x: x.bounds.constant is None or x.bounds.constant > 2, sub_propositions)),"),
    # C09
    ("reduce-writes-self-value", "C09", PLOG, "        sub_propositions = list(\n            itertools.chain(\n                map(\n                    operator.methodcaller(\"reduce\"),", "        self.generated_id = self.generated_id and len(self.propositions) != 2\n        sub_propositions = list(\n            itertools.chain(\n                map(\n                    operator.methodcaller(\"reduce\"),"),
    ("add-appends-to-self", "C09", CC, "        return StingyConfigurator(\n            *(self.propositions + [proposition]), ", "        self.propositions.append(proposition) if len(self.propositions) == 1 else None\n        return StingyConfigurator(\n            *(self.propositions + [proposition] if len(self.propositions) != 2 else self.propositions), "),
    ("polyhedron-memo-key-coarse", "C09", CC, "        key = self.to_text()\n", "        key = self.id\n"),
    # C10
    ("errors-no-dup-edge", "C10", PLOG, "                            lambda x: len(x.propositions) != len(set(map(operator.attrgetter(\"id\"), x.propositions))),", "                            lambda x: len(x.propositions) > 2 and len(x.propositions) != len(set(map(operator.attrgetter(\"id\"), x.propositions))),"),
    ("errors-compound-ids-only", "C10", PLOG, "lambda x: (x.id, x.bounds.as_tuple(), int(x.sign), x.value, tuple(sorted(map(operator.attrgetter(\"id\"), x.propositions))))", "lambda x: (x.id, x.bounds.as_tuple(), int(x.sign), tuple(sorted(map(operator.attrgetter(\"id\"), x.propositions))))"),
    # C11
    ("reducable-rows-amax", "C11", ND, "        return boolean_ndarray(self.A_min.sum(axis=1) >= self.b)", "        return boolean_ndarray((self.A_min.sum(axis=1) >= self.b) | ((self.A_max.sum(axis=1) >= self.b) & (self.b > 1000)))"),
    ("reduce-rows-drop-index", "C11", ND, "self.index[msk] if hasattr(self, \"index\") else [])", "self.index[:int(msk.sum())] if hasattr(self, \"index\") else [])"),
    # C12
    ("tighten-res-plus", "C12", ND, "            lbs[self.A <= 0] = min_value", "            lbs[self.A <= 0] = min_value\n            lbs[self.A > 2] += 1"),
    ("row-bounds-min-twice", "C12", ND, "            A_.max(axis=0).sum(axis=1)-self.b\n        ]).T", "            A_.max(axis=0).sum(axis=1)-self.b - (self.b < -50)\n        ]).T"),
    # C13
    ("shadow-no-row-sign", "C13", ND, "math.pow(-1, x)", "math.pow(1, x)"),
    ("compress-first-uses-last-row", "C13", ND, "                self = self[numpy.argmax(self!=0, axis=0),numpy.arange(self.shape[1])]", "                self = self[numpy.argmax(self!=0, axis=0) if self.shape[0] < 4 else numpy.argmax(self > 0, axis=0),numpy.arange(self.shape[1])]"),
    # C14
    ("inner-prio-minus-one", "C14", CC, "                inner.prio = getattr(inner, 'prio', -1)-1 ", "                inner.prio = getattr(inner, 'prio', -1)-(len(complement) < 2) "),
    ("vectors-stack-order", "C14", ND, "                        lambda y: [\n                            self.default_prio_vector,\n                            list(", "                        lambda y: [\n                            self.default_prio_vector * (1 if len(y) < 3 else 0),\n                            list("),
    # C15
    ("solve-zip-off-by-support", "C15", PLOG, "                                zip(\n                                    polyhedron.A.variables,\n                                    solution\n                                )", "                                zip(\n                                    polyhedron.A.variables if len(polyhedron.A.variables) != 5 else polyhedron.variables,\n                                    solution\n                                )"),
    ("only-leafs-ignored-for-int", "C15", CC, "                        lambda x: x[0] in leafs,", "                        lambda x: x[0] in leafs or x[1] == 0 and len(leafs) == 4,"),
    # C16
    ("atmost-json-sign", "C16", PLOG, "        d['value'] = -1*self.value\n        return d", "        d['value'] = -1*self.value if self.value != -3 else 2\n        return d"),
    ("cc-any-json-drops-default", "C16", CC, "        d['default'] = list(map(lambda x: x.to_json(), self.default))\n", "        d['default'] = list(map(lambda x: x.to_json(), self.default if len(self.propositions) == 2 or len(self.propositions) > 3 else []))\n"),
    # C17
    ("b64-drops-index", "C17", ND, "[self, self.default_prio_vector, self.variables, self.index, self.dtype]", "[self, self.default_prio_vector, self.variables, self.index if len(self.index) != 3 else [], self.dtype]"),
    # C18
    ("add-drops-id", "C18", CC, "            id=self.id,\n        )\n\n    def from_json", "            id=self.id if not self.generated_id else None,\n        )\n\n    def from_json"),
    ("add-membership-flatten", "C18", CC, "        if proposition.id in map(operator.attrgetter(\"id\"), self.propositions):", "        if proposition.id in map(operator.attrgetter(\"id\"), self.propositions[1:]):"),
    # C19
    ("separate-points-axis", "C19", ND, "                (numpy.matmul(A, points.T) < b.reshape(-1,1)).any(axis=1)\n            )", "                (numpy.matmul(A, points.T) < b.reshape(-1,1)).any(axis=1) if points.shape[0] != 3 else (numpy.matmul(A, points.T) <= b.reshape(-1,1)).any(axis=1)\n            )"),
    # C20
    ("from-list-zero-based-when-long", "C20", ND, "                    lambda x: 1*(x in lst) and (1+lst.index(x)),", "                    lambda x: 1*(x in lst) and (1+lst.index(x) - (len(lst) > 4)),"),
    ("bool-indices-00", "C20", ND, "                        lambda x: 1*(x[1].bounds.as_tuple() != (0,1)) + is_bool == 1,", "                        lambda x: 1*(x[1].bounds.as_tuple() not in [(0,1), (1,1)]) + is_bool == 1,"),
]
