"""applies each deliberate break to /repo (in place, reverted straight afterwards), runs the check expected to catch it
and prints a table. usage: python -m vmon.selfcheck.run [name-substring ...]"""
import os, subprocess, sys, json
from .breaks import BREAKS
V = os.path.dirname(os.path.dirname(os.path.dirname(os.path.abspath(__file__))))

def main():
    sel = sys.argv[1:]
    st = subprocess.run(["git", "-C", "/repo", "status", "--porcelain"], capture_output=True, text=True).stdout.strip()
    if st:
        print("refusing: /repo dirty"); return 2
    rows = []
    for name, prop, f, old, new in BREAKS:
        if sel and not any(s in name or s == prop for s in sel):
            continue
        p = os.path.join("/repo", f)
        src = open(p).read()
        if src.count(old) != 1:
            rows.append((name, prop, "ANCHOR x%d" % src.count(old), "")); print(rows[-1]); continue
        try:
            open(p, "w").write(src.replace(old, new))
            r = subprocess.run([os.path.join(V, "check"), prop, "--tier", "quick", "--no-evidence"], cwd=V, capture_output=True, text=True)
            first = next((l.strip()[:150] for l in r.stdout.splitlines() if l.startswith("    sub=")), "")
            inc = next((l.strip()[:200] for l in r.stdout.splitlines() if "INCONCLUSIVE" in l), "")
            rows.append((name, prop, {0: "MISSED", 1: "caught", 2: "inconclusive"}.get(r.returncode, str(r.returncode)), first or inc))
        finally:
            subprocess.run(["git", "-C", "/repo", "checkout", "--", "."], check=True)
        print(rows[-1], flush=True)
    json.dump(rows, open(os.path.join(V, "vmon", "selfcheck", "last_table.json"), "w"), indent=1)
    print("caught %d / %d" % (sum(r[2] == "caught" for r in rows), len(rows)))

if __name__ == "__main__":
    sys.exit(main())
