"""Second workload source: the repository's own test-suite executed with the monitors of one property attached.

usage (done by run.py in thorough tiers):
  VMON_PROP=C03 VMON_OUT=/path/report.json /venv/bin/python -m pytest -p vmon.pytest_plugin -q -p no:cacheprovider tests puan
Contracts record and continue, so the tests behave as without the plugin; every call they make to a monitored
function is a judged observation (inside the property's domain) or is counted as out of scope.
"""
import importlib
import json
import os

_ctx = None


def pytest_configure(config):
    global _ctx
    prop = os.environ.get("VMON_PROP")
    if not prop:
        return
    from . import env
    env.bootstrap()
    from . import monitor, known
    _ctx = monitor.Ctx(prop, "thorough", int(os.environ.get("VERIF_SEED", "0") or 0), os.environ.get("PYTHONHASHSEED", "random"))
    monitor.set_ctx(_ctx)
    monitor._engine()
    _ctx.classifier = known.classifier_for(prop)
    wl = importlib.import_module("vmon.workloads." + prop.lower())
    wl.install(_ctx)


def pytest_runtest_setup(item):
    if _ctx is not None:
        from . import monitor
        monitor.DEPTH.clear()
        _ctx.count("pytest:tests")


def pytest_sessionfinish(session, exitstatus):
    if _ctx is None:
        return
    rep = _ctx.report()
    rep["wall_s"] = 0
    rep["harness_errors"] = []
    rep["harness_error_count"] = 0
    rep["source"] = "repository test-suite under monitors"
    out = os.environ.get("VMON_OUT")
    if out:
        with open(out, "w") as f:
            json.dump(rep, f)
