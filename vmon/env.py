"""Interpreter bootstrap shared by every shard and by the orchestrator.

* the code under observation is always /repo's *working tree* (sys.path[0]), never a
  copy; a shard refuses to run when `puan` resolves elsewhere;
* third-party monitor libraries (icontract, deal) live in the git-ignored /verif/.deps
  and are re-created offline from /opt/veriftools/wheels whenever they are missing;
* numerical libraries are pinned to one thread so that 16 shards really use 16 cores.
"""
import fcntl
import os
import subprocess
import sys

VERIF = os.path.dirname(os.path.dirname(os.path.abspath(__file__)))
REPO = os.environ.get("VERIF_REPO", "/repo")
PY = os.environ.get("VERIF_PY", "/venv/bin/python")
DEPS = os.path.join(VERIF, ".deps")
WHEELS = "/opt/veriftools/wheels"
GUARD = "PUAN_PYTHON_VERIF"

for _k in ("OPENBLAS_NUM_THREADS", "OMP_NUM_THREADS", "MKL_NUM_THREADS", "NUMEXPR_NUM_THREADS"):
    os.environ.setdefault(_k, "1")


def ensure_deps(quiet=True):
    """Install icontract/deal into .deps if missing. Safe under concurrency (file lock).
    Returns the engine name that will be usable: 'icontract' or 'plain-wrapper'."""
    marker = os.path.join(DEPS, "icontract", "__init__.py")
    if not os.path.exists(marker):
        os.makedirs(DEPS, exist_ok=True)
        with open(os.path.join(VERIF, ".deps.lock"), "w") as lk:
            fcntl.flock(lk, fcntl.LOCK_EX)
            try:
                if not os.path.exists(marker):
                    cmd = [PY, "-m", "pip", "install", "--no-index", "--find-links", WHEELS,
                           "--target", DEPS, "--quiet", "--disable-pip-version-check",
                           "icontract", "deal"]
                    env = dict(os.environ, PIP_NO_INDEX="1")
                    r = subprocess.run(cmd, env=env, stdout=subprocess.PIPE, stderr=subprocess.STDOUT,
                                       timeout=600)
                    if r.returncode != 0 and not quiet:
                        sys.stderr.write(r.stdout.decode(errors="replace"))
            finally:
                fcntl.flock(lk, fcntl.LOCK_UN)
    return "icontract" if os.path.exists(marker) else "plain-wrapper"


def bootstrap():
    """Make `import puan` mean /repo's working tree and make .deps importable."""
    os.environ[GUARD] = "1"
    if VERIF not in sys.path:
        sys.path.insert(0, VERIF)
    while REPO in sys.path:
        sys.path.remove(REPO)
    sys.path.insert(0, REPO)
    if os.path.isdir(DEPS) and DEPS not in sys.path:
        sys.path.append(DEPS)
    import warnings
    warnings.filterwarnings("ignore")
    import puan  # noqa
    here = os.path.realpath(os.path.dirname(os.path.dirname(puan.__file__)))
    if here != os.path.realpath(REPO):
        raise SystemExit(f"vmon: puan imported from {puan.__file__}, expected under {REPO}")
    return puan
