"""Canonical state / result digests (what a later query could observe), used by C09, C16, C17, C18."""
import hashlib

import numpy
import puan

from . import adapters


def bounds_t(b):
    lo, hi = b.as_tuple() if hasattr(b, "as_tuple") else tuple(b)
    return (int(lo), int(hi))


def bounds_rt(b):
    """bounds with the representation of the two numbers (a packed form distinguishes numpy integers from ints)"""
    lo, hi = b.as_tuple() if hasattr(b, "as_tuple") else tuple(b)
    return (int(lo), int(hi), type(lo).__name__, type(hi).__name__)


def state(obj, depth=0):
    """nested tuple describing a model / variable / array. Reads attributes with getattr-defaults."""
    if depth > 60:
        return ("<deep>",)
    if isinstance(obj, puan.variable):
        return ("var", type(obj).__name__, obj.id, bounds_rt(obj.bounds))
    if hasattr(obj, "propositions") and hasattr(obj, "variable"):
        default = getattr(obj, "default", None)
        d = None
        if default is not None:
            d = tuple((getattr(x, "id", x), bounds_t(x.bounds) if hasattr(x, "bounds") else None) for x in default)
        return ("node", type(obj).__module__.split(".")[-1] + "." + type(obj).__name__, obj.variable.id, bounds_rt(obj.variable.bounds),
                int(obj.sign), int(obj.value), bool(getattr(obj, "generated_id", False)), d, getattr(obj, "prio", None),
                tuple(state(c, depth + 1) for c in obj.propositions))
    if isinstance(obj, numpy.ndarray):
        return array_state(obj)
    return ("other", repr(obj)[:200])


def array_state(a):
    vs = getattr(a, "variables", None)
    ix = getattr(a, "index", None)
    dpv = getattr(a, "default_prio_vector", None)
    return ("array", type(a).__name__, tuple(numpy.asarray(a).shape), str(numpy.asarray(a).dtype), tuple(numpy.asarray(a).reshape(-1).tolist()),
            None if vs is None else tuple((getattr(v, "id", v), bounds_t(v.bounds) if hasattr(v, "bounds") else None) for v in vs),
            None if ix is None else tuple((getattr(v, "id", v), bounds_t(v.bounds) if hasattr(v, "bounds") else None) for v in ix),
            None if dpv is None else tuple(numpy.asarray(dpv).reshape(-1).tolist()))


def array_state_full(a):
    """array_state plus, per column variable / index entry, its class and (for a proposition used as a column variable) its structure"""
    def ent(v):
        return (type(v).__name__, state(v) if hasattr(v, "propositions") else None)
    vs = getattr(a, "variables", None)
    ix = getattr(a, "index", None)
    return array_state(a) + (None if vs is None else tuple(ent(v) for v in vs), None if ix is None else tuple(ent(v) for v in ix))


def result(r, depth=0):
    """digestable form of a return value"""
    if depth > 8:
        return repr(r)[:100]
    if isinstance(r, puan.Bounds):
        return ("Bounds",) + bounds_t(r)
    if isinstance(r, puan.variable) or (hasattr(r, "propositions") and hasattr(r, "variable")):
        return state(r)
    if isinstance(r, numpy.ndarray):
        return array_state(r)
    if isinstance(r, dict):
        return ("dict", tuple(sorted(((repr(k), result(v, depth + 1)) for k, v in r.items()))))
    if isinstance(r, (list, tuple)):
        return (type(r).__name__, tuple(result(v, depth + 1) for v in r))
    if isinstance(r, (numpy.integer,)):
        return int(r)
    if isinstance(r, (numpy.floating,)):
        return float(r)
    if isinstance(r, (numpy.bool_,)):
        return bool(r)
    if isinstance(r, (str, int, float, bool)) or r is None:
        return r
    if hasattr(r, "__iter__"):
        return ("iter", tuple(result(v, depth + 1) for v in r))
    return repr(r)[:200]


def deep(o, depth=0, seen=None):
    """canonical form of everything a pickle of `o` would contain (attribute names and values, with the representation of
    numbers), independent of which string / int objects happen to be shared"""
    if depth > 80:
        return "<deep>"
    if isinstance(o, (bool, str)) or o is None:
        return o
    if isinstance(o, int):
        return ("int", o)
    if isinstance(o, float):
        return ("float", repr(o))
    if isinstance(o, numpy.generic):
        return (type(o).__name__, o.item() if not isinstance(o, numpy.floating) else repr(o.item()))
    if isinstance(o, numpy.ndarray):
        extra = deep(getattr(o, "__dict__", {}), depth + 1)
        return ("ndarray", type(o).__name__, str(o.dtype), tuple(o.shape), tuple(numpy.asarray(o).reshape(-1).tolist()) if o.dtype != object else
                tuple(deep(x, depth + 1) for x in o.reshape(-1).tolist()), extra)
    if isinstance(o, (list, tuple)):
        return (type(o).__name__,) + tuple(deep(x, depth + 1) for x in o)
    if isinstance(o, (set, frozenset)):
        return (type(o).__name__,) + tuple(sorted((deep(x, depth + 1) for x in o), key=repr))
    if isinstance(o, dict):
        return ("dict",) + tuple(sorted(((deep(k, depth + 1), deep(v, depth + 1)) for k, v in o.items()), key=repr))
    try:
        st = o.__getstate__()
    except Exception:
        st = getattr(o, "__dict__", None)
    if st is None:
        st = {}
    return ("obj", type(o).__module__ + "." + type(o).__qualname__, deep(st, depth + 1))


def h(x):
    return hashlib.sha256(repr(x).encode()).hexdigest()[:16]


def first_diff(a, b, path="root"):
    """human readable location of the first difference between two nested tuples"""
    if type(a) != type(b) or not isinstance(a, tuple):
        return None if a == b else f"{path}: {a!r} != {b!r}"
    if len(a) != len(b):
        return f"{path}: length {len(a)} != {len(b)}"
    for i, (x, y) in enumerate(zip(a, b)):
        d = first_diff(x, y, f"{path}[{i}]")
        if d:
            return d
    return None


def canon_poly(model, P):
    """canonical (column names, bounds, rows, default prio vector): generated ids renamed by content hash, columns sorted by name, rows sorted"""
    from . import refmodel
    graph, top, info = adapters.graph_of(model)
    names = refmodel.canon_names(graph, top, info["generated"])
    vs = list(P.variables)
    cols = [names.get(v.id, "?" + str(v.id)) for v in vs[1:]]
    order = sorted(range(len(cols)), key=lambda j: cols[j])
    M = numpy.asarray(P)
    A = M[:, 1:][:, order] if M.shape[1] > 1 else M[:, 1:]
    rows = sorted(tuple([int(M[i, 0])] + [int(x) for x in A[i].tolist()]) for i in range(M.shape[0]))
    dpv = getattr(P, "default_prio_vector", None)
    return ([cols[j] for j in order], [bounds_t(vs[1 + j].bounds) for j in order], rows,
            None if dpv is None else [int(numpy.asarray(dpv)[j]) for j in order])


def canon_prios(model, prios):
    from . import refmodel
    graph, top, info = adapters.graph_of(model)
    names = refmodel.canon_names(graph, top, info["generated"])
    return tuple(sorted((names.get(k, "?" + str(k)), v) for k, v in prios.items()))
