"""One shard: installs the monitors of one property, drives its workload, writes a report.

usage: python -m vmon.shard --prop C05 --tier quick --seed 3 --cases 400 --time 60 --out report.json
       python -m vmon.shard --prop C05 --replay replays/C05-0.json        (strict, single case)
"""
import argparse
import faulthandler
import importlib
import json
import os
import random
import sys
import time
import traceback

from . import env


def main(argv=None):
    ap = argparse.ArgumentParser()
    ap.add_argument("--prop", required=True)
    ap.add_argument("--tier", default="quick")
    ap.add_argument("--seed", type=int, default=0)
    ap.add_argument("--cases", type=int, default=100)
    ap.add_argument("--time", type=float, default=60.0)
    ap.add_argument("--out", default=None)
    ap.add_argument("--replay", default=None)
    ap.add_argument("--mode", default="gen")       # gen | pytest-collect
    a = ap.parse_args(argv)

    faulthandler.enable()
    env.bootstrap()
    from . import monitor, adapters
    ctx = monitor.Ctx(a.prop, a.tier, a.seed, os.environ.get("PYTHONHASHSEED", "random"), strict=bool(a.replay))
    monitor.set_ctx(ctx)
    wl = importlib.import_module("vmon.workloads." + a.prop.lower())
    from . import known
    ctx.classifier = known.classifier_for(a.prop)
    monitor._engine()
    wl.install(ctx)

    t0 = time.time()
    harness_errors = []
    if a.replay:
        rep = json.load(open(a.replay))
        ctx.case = rep["case"]
        ctx.case_index = rep.get("case_index", 0)
        try:
            wl.run_case(rep["case"], ctx)
            print(f"replay: no contract failed (violations recorded: {ctx.violation_count}, known: {list(ctx.known)})")
            return 0 if ctx.violation_count == 0 else 1
        except monitor.ContractBroken as e:
            print("replay: CONTRACT BROKEN:", str(e)[:3000])
            return 1
        except monitor.CaseAbort as e:
            print("replay: exception from the function under observation:", e, ctx.violations[-1:] )
            return 1

    rng = random.Random(a.seed * 7919 + 17)
    i = 0
    while i < a.cases and time.time() - t0 < a.time:
        ctx.case_index = i
        case_rng = random.Random(rng.getrandbits(64))
        try:
            case = wl.gen_case(case_rng, a.tier, ctx, i)
        except Exception:
            harness_errors.append("gen_case: " + traceback.format_exc(limit=4)[-800:])
            i += 1
            continue
        i += 1
        if case is None:
            ctx.count("case:none")
            continue
        ctx.case = case
        ctx.count("cases")
        try:
            wl.run_case(case, ctx)
        except monitor.CaseAbort:
            ctx.count("case:aborted-by-exception")
        except monitor.OutOfScope:
            ctx.count("case:out_of_scope")
        except adapters.AdapterMismatch as e:
            ctx.count("adapter-mismatch")
            ctx.note_inconclusive("adapter mismatch: " + str(e)[:200])
        except monitor.ContractBroken:
            raise
        except BaseException as e:
            if isinstance(e, (KeyboardInterrupt, SystemExit)):
                raise
            tb = traceback.extract_tb(sys.exc_info()[2])
            inner = tb[-1].filename if tb else ""
            txt = traceback.format_exc(limit=8)[-1500:]
            if os.path.realpath(inner).startswith(os.path.realpath(env.REPO) + os.sep) or "puan_rspy" in type(e).__module__ or type(e).__name__ == "PanicException":
                # raised inside the library on an in-domain input that the workload did not expect to fail
                ctx.judged("no-exception:uncaught")
                ctx.violation("exception:uncaught", {"type": type(e).__name__, "msg": str(e)[:300], "tb": txt},
                              {"exception": type(e).__name__})
            else:
                harness_errors.append(txt)
                ctx.count("harness-error")
        finally:
            ctx.case = None
    if hasattr(wl, "finalize"):
        try:
            wl.finalize(ctx)
        except Exception:
            harness_errors.append("finalize: " + traceback.format_exc(limit=4)[-800:])
    rep = ctx.report()
    rep["wall_s"] = time.time() - t0
    rep["cases_tried"] = i
    rep["harness_errors"] = harness_errors[:5]
    rep["harness_error_count"] = len(harness_errors)
    rep["time_limited"] = (i < a.cases)
    out = a.out or "/dev/stdout"
    with open(out, "w") as f:
        json.dump(rep, f)
    return 0


if __name__ == "__main__":
    sys.exit(main())
