"""Pristine-process oracle for C09.

A server process imports puan once and then only waits; it never executes an API call itself. For every request it
forks; the child materialises the object from its recipe (base recipe, derivations, modelled rebindings) in a process
image in which no API call has ever been served, applies the operation and reports the digest of the result. This is
the executable meaning of "what it would return on a freshly built identical object ... not depending on which other
objects were queried earlier in the process".
"""
import os
import pickle
import struct
import subprocess
import sys
import time

from . import env


def _send(f, obj):
    b = pickle.dumps(obj)
    f.write(struct.pack("<I", len(b)))
    f.write(b)
    f.flush()


def _recv(f):
    h = f.read(4)
    if len(h) < 4:
        raise EOFError
    n = struct.unpack("<I", h)[0]
    return pickle.loads(f.read(n))


def server_main():
    env.bootstrap()
    from . import histops            # imports puan, defines materialise/apply; executes nothing
    inp, out = sys.stdin.buffer, sys.stdout.buffer
    # keep anything the library prints away from the protocol stream
    sys.stdout = sys.stderr
    _send(out, {"ready": True, "pid": os.getpid()})
    while True:
        try:
            req = _recv(inp)
        except EOFError:
            return
        if req.get("quit"):
            return
        r, w = os.pipe()
        pid = os.fork()
        if pid == 0:
            try:
                os.close(r)
                try:
                    res = histops.pristine_answer(req)
                except BaseException as e:          # noqa
                    res = {"harness_error": f"{type(e).__name__}: {e}"}
                with os.fdopen(w, "wb") as f:
                    f.write(pickle.dumps(res))
            finally:
                os._exit(0)
        os.close(w)
        with os.fdopen(r, "rb") as f:
            data = f.read()
        os.waitpid(pid, 0)
        try:
            res = pickle.loads(data)
        except Exception as e:
            res = {"harness_error": f"child died without an answer ({e})"}
        _send(out, res)


class ForkRef:
    def __init__(self):
        e = dict(os.environ, PYTHONPATH=env.VERIF, PYTHONDONTWRITEBYTECODE="1")
        self.p = subprocess.Popen([env.PY, "-m", "vmon.forkref"], cwd=env.VERIF, env=e, stdin=subprocess.PIPE,
                                  stdout=subprocess.PIPE, stderr=subprocess.DEVNULL)
        hello = _recv(self.p.stdout)
        assert hello.get("ready")
        self.requests = 0

    def query(self, req):
        self.requests += 1
        _send(self.p.stdin, req)
        return _recv(self.p.stdout)

    def close(self):
        try:
            _send(self.p.stdin, {"quit": True})
            self.p.wait(timeout=5)
        except Exception:
            self.p.kill()


if __name__ == "__main__":
    server_main()
