#!/venv/bin/python
"""apply a patch to /repo, run checks (without touching evidence), undo the patch straight afterwards.

usage: tools/try_mutant.py <patch.diff> [C05 C04 ...] [--tier quick] [--seed N] [--repo DIR]
--repo DIR: apply the patch to a scratch git worktree of /repo instead (checks then run with VERIF_REPO=DIR); used for bulk
re-runs so that /repo itself stays untouched and several changes can be tried at the same time.
prints one line per check: <prop> exit=<rc> (VIOLATION lines ...)   and a summary `caught_by=[...]`
"""
import os
import subprocess
import sys

V = os.path.dirname(os.path.dirname(os.path.abspath(__file__)))


def main():
    args = sys.argv[1:]
    tier, seed = "quick", os.environ.get("VERIF_SEED", "0")
    if "--tier" in args:
        i = args.index("--tier")
        tier = args[i + 1]
        del args[i:i + 2]
    if "--seed" in args:
        i = args.index("--seed")
        seed = args[i + 1]
        del args[i:i + 2]
    repo = "/repo"
    if "--repo" in args:
        i = args.index("--repo")
        repo = os.path.abspath(args[i + 1])
        del args[i:i + 2]
    patch = os.path.abspath(args[0])
    props = args[1:] or ["C%02d" % i for i in range(1, 21)]
    st = subprocess.run(["git", "-C", repo, "status", "--porcelain"], capture_output=True, text=True).stdout.strip()
    if st:
        print("refusing: " + repo + " has uncommitted changes:\n" + st)
        return 2
    r = subprocess.run(["git", "-C", repo, "apply", patch], capture_output=True, text=True)
    if r.returncode != 0:
        print("patch does not apply:", r.stderr)
        return 2
    caught, incon = [], []
    try:
        for p in props:
            e = dict(os.environ, VERIF_SEED=str(seed), VERIF_REPO=repo)
            r = subprocess.run([os.path.join(V, "check"), p, "--tier", tier, "--no-evidence"], cwd=V, env=e, capture_output=True, text=True)
            lines = [l for l in r.stdout.splitlines() if l.startswith(("VIOLATION", "    sub=", "[%s] INCONCLUSIVE" % p))]
            print(f"{p} exit={r.returncode} " + (" | ".join(l.strip()[:260] for l in lines[:3])))
            if r.returncode == 1:
                caught.append(p)
            elif r.returncode != 0:
                incon.append(p)
    finally:
        subprocess.run(["git", "-C", repo, "checkout", "--", "."], check=True)
    print("caught_by=%s inconclusive=%s" % (caught, incon))
    return 0


if __name__ == "__main__":
    sys.exit(main())
