#!/venv/bin/python
"""writes MANIFEST.json from the table below; a property appears as a claimed check as soon as its workload exists"""
import json, os
V = os.path.dirname(os.path.dirname(os.path.abspath(__file__)))
TECH = {
 "C01": ("icontract post-condition on AtLeast.to_ge_polyhedron + reference truth function; generated models", "4-5 C01"),
 "C02": ("post-condition on to_ge_polyhedron with full enumeration of auxiliary completions / feasible set vs reference truth table", "5 C02"),
 "C03": ("post-conditions on AtLeast.evaluate / evaluate_propositions / variable.evaluate vs 12-line arithmetic evaluator", "5 C03"),
 "C04": ("runtime oracle: boolean AST semantics on the recipe vs evaluate of models built by constructors, from_json and from_cicJE; bounded-exhaustive + random ASTs", "5 C04"),
 "C05": ("icontract post-condition on AtLeast.negate and Not.__new__ (complement on enumerated assignments, solver-safe-form predicate, id kept); sys.monitoring reach counters", "5 C05"),
 "C06": ("post-conditions on evaluate*/is_tautology/is_contradiction/equation_bounds with completion enumeration", "5 C06"),
 "C07": ("two-call history monitor assume->evaluate vs evaluate(union) on separately built objects + containment by reference", "5 C07"),
 "C08": ("post-condition on AtLeast.reduce vs reference truth on all free-leaf interpretations", "5 C08"),
 "C09": ("recorded call histories + offline checker: state digests before/after every call, results vs pristine forked process, attribute-write hook naming the writer", "5 C09"),
 "C10": ("post-condition on AtLeast.errors vs independent well-definedness walk; ill-defined-by-construction and must-accept generators", "5 C10"),
 "C11": ("post-conditions on reducable_*/reduce* vs brute-force integer solution sets (numpy meshgrid)", "5 C11"),
 "C12": ("post-conditions on tighten_column_bounds/row_bounds/column_bounds/n_row_combinations vs enumeration in Python ints", "5 C12"),
 "C13": ("post-condition on integer_ndarray.ndint_compress: dominance/tie/order/sign in big ints, dense-rank definitions", "5 C13"),
 "C14": ("spy solver at the select() boundary + pairwise lexicographic-key checker over all feasible 0/1 points", "5 C14"),
 "C15": ("recorded client-boundary history of solver calls (objectives, polyhedron, returned vectors, reported dicts) + brute-force optimality; fault injection at the solver callable", "5 C15"),
 "C16": ("round-trip monitor on to_json/from_json: truth tables, leaf sets, explicit ids, canonical polyhedron modulo generated names", "5 C16"),
 "C17": ("round-trip monitor on to_b64/from_b64: structural digest + query battery on both objects", "5 C17"),
 "C18": ("recorded add-histories + offline checker against direct construction after every prefix", "5 C18"),
 "C19": ("post-conditions on ineqs_satisfied/separable/ineq_separate_points vs einsum definition in 1/2/3-D", "5 C19"),
 "C20": ("post-conditions on construct/from_list/to_list/variable_indices/A/b vs position-wise definitions", "5 C20"),
}
props = [json.loads(l) for l in open(os.path.join(V, "properties.jsonl"))]
checks, na = [], []
for p in props:
    pid = p["id"]
    if os.path.exists(os.path.join(V, "vmon", "workloads", pid.lower() + ".py")):
        tech, ref = TECH[pid]
        checks.append({
            "property_id": pid,
            "quick_cmd": f"./check {pid} --tier quick",
            "thorough_cmd": f"./check {pid} --tier thorough",
            "evidence_file": f"evidence/{pid}.json",
            "replay_cmd_template": f"./check {pid} --replay {{path}}",
            "engine": "vmon",
            "level_claimed": {"category": "exploration",
                              "text": "runtime monitoring: the real functions run under generated hostile workloads while contracts/monitors compare every observed call with an independent executable model; held on the observed executions only",
                              "design_ref": "DESIGN.md section " + ref},
            "level_note": "trusted: the harness's reference models (vmon/refmodel.py), numpy, CPython; puan_rspy is observed as a black box; nothing is claimed for inputs the generators do not produce (bounds in DESIGN.md section 7)",
            "technique": tech,
        })
    else:
        na.append({"property_id": pid, "reason": "check not built yet in this revision (work in progress; the technique applies, see DESIGN.md)"})
m = {
 "version": 1,
 "setup_cmd": "/venv/bin/python -m vmon.setup",
 "hooks": {"guard": "PUAN_PYTHON_VERIF", "enable": "no source hooks: monitors are attached from /verif at import time (icontract decorators on the real functions, sys.monitoring reach counters); PUAN_PYTHON_VERIF=1 is set by the harness for its own processes only",
           "baseline_off_cmd": "cd /repo && env -u PUAN_PYTHON_VERIF /venv/bin/python -m pytest -ra -q -p no:cacheprovider --timeout=900 --continue-on-collection-errors",
           "source_commits": [], "add_only": True},
 "engines": [{"name": "vmon", "path": "vmon/", "serves_properties": [c["property_id"] for c in checks],
              "kind_free_text": "runtime monitoring framework: icontract contracts on the real functions, reference-model oracles, recorded histories with offline checkers, sys.monitoring reach counters, sharded seeded workloads"}],
 "checks": checks,
 "notes": "exit 0 held / 1 VIOLATION / 2 inconclusive (never on the unchanged tree). known_findings.json lists genuine defects (open / fixed). VERIF_SEED and VERIF_TIER are honoured.",
 "not_applicable": na,
}
json.dump(m, open(os.path.join(V, "MANIFEST.json"), "w"), indent=1)
print("checks:", len(checks), "not yet:", len(na))
