#!/venv/bin/python
"""Vet a sub-agent's seeded change and, if it is confirmed, keep it under /verif/seeded/<prop>-<x>/.

usage: tools/vet_seeded.py C10 a [--props C10 C04 ...] [--keep-anyway]
steps (all in the scratch worktree /tmp/wt/<prop>, never in /repo):
  1. clean tree: demo.py must PASS            2. apply patch: library imports, pinned suite keeps the 125 stable tests
  3. demo.py must FAIL                        4. revert, demo PASS again
then tools/try_mutant.py applies the patch to /repo, runs the named checks (default: the property's own), reverts.
"""
import json
import os
import shutil
import subprocess
import sys
import xml.etree.ElementTree as ET

V = os.path.dirname(os.path.dirname(os.path.abspath(__file__)))
PY = "/venv/bin/python"


def sh(cmd, cwd=None, env=None, timeout=1200):
    r = subprocess.run(cmd, cwd=cwd, env=env, capture_output=True, text=True, timeout=timeout)
    return r.returncode, r.stdout + r.stderr


def suite(wt):
    out = f"/tmp/vet_{os.getpid()}.xml"
    hyp = f"/tmp/vet_hyp_{os.getpid()}"
    shutil.rmtree(hyp, ignore_errors=True)
    env = dict(os.environ, PYTHONPATH=wt, HYPOTHESIS_STORAGE_DIRECTORY=hyp)      # no example database carried over between runs
    env.pop("PUAN_PYTHON_VERIF", None)
    shutil.rmtree(os.path.join(wt, ".hypothesis"), ignore_errors=True)
    sh([PY, "-m", "pytest", "-ra", "-q", "-p", "no:cacheprovider", "--timeout=900", "--continue-on-collection-errors", "--junitxml=" + out], cwd=wt, env=env)
    stable = set(json.load(open("/root/.vp/BASELINE.json"))["stable_pass"])
    ok = set()
    try:
        for tc in ET.parse(out).iter("testcase"):
            if not any(c.tag in ("failure", "error", "skipped") for c in tc):
                ok.add(f"{tc.get('classname')}::{tc.get('name')}")
    finally:
        if os.path.exists(out):
            os.remove(out)
        shutil.rmtree(hyp, ignore_errors=True)
        shutil.rmtree(os.path.join(wt, ".hypothesis"), ignore_errors=True)
    return sorted(stable - ok), len(ok)


def main():
    a = sys.argv[1:]
    prop, x = a[0], a[1]
    props = [prop]
    if "--props" in a:
        props = a[a.index("--props") + 1:]
        props = [p for p in props if not p.startswith("--")]
    rnd = os.environ.get("VET_ROUND", "1")
    wt = f"/tmp/wt/{prop}" if rnd == "1" else f"/tmp/wt{rnd}/{prop}"
    src = f"/tmp/wt_out/{prop}/{x}" if rnd == "1" else f"/tmp/wt_out{rnd}/{prop}/{x}"
    keep_as = x if rnd == "1" else {"a": "c", "b": "d"}.get(x, x) if rnd == "2" else {"a": "e", "b": "f"}.get(x, x) if rnd == "3" else {"a": "g", "b": "h"}.get(x, x) if rnd == "4" else {"a": "i", "b": "j"}.get(x, x) if rnd == "5" else {"a": "k", "b": "l"}.get(x, x) if rnd == "6" else {"a": "m", "b": "n"}.get(x, x) if rnd == "7" else {"a": "o", "b": "p"}.get(x, x) if rnd == "8" else {"a": "q", "b": "r"}.get(x, x) if rnd == "9" else {"a": "s", "b": "t"}.get(x, x) if rnd == "10" else {"a": "u", "b": "v"}.get(x, x) if rnd == "11" else {"a": "w", "b": "x"}.get(x, x) if rnd == "12" else {"a": "y", "b": "z"}.get(x, x) if rnd == "13" else {"a": "za", "b": "zb"}.get(x, x) if rnd == "14" else x + rnd
    patch, demo = os.path.join(src, "patch.diff"), os.path.join(src, "demo.py")
    env = dict(os.environ, PYTHONPATH=wt)
    rep = {"property": prop, "variant": x}
    sh(["git", "-C", wt, "checkout", "--", "."])
    rc, out = sh([PY, demo], cwd=wt, env=env)
    rep["demo_clean"] = {"exit": rc, "tail": out[-300:]}
    rc_apply, out = sh(["git", "-C", wt, "apply", patch])
    rep["applies"] = rc_apply == 0
    if rc_apply != 0:
        print(json.dumps(rep, indent=1), out)
        return 1
    try:
        missing, npass = suite(wt)
        if missing:
            # tests::test_model_json_conversion can find an unrelated duplicate-proposition example by chance (hypothesis,
            # seen on the clean tree too): a single retry with a fresh example database decides
            rep["suite_first_run_missing"] = missing
            missing, npass = suite(wt)
        rep["suite_with_patch"] = {"passed": npass, "stable_missing": missing}
        rc, out = sh([PY, demo], cwd=wt, env=env)
        rep["demo_patched"] = {"exit": rc, "tail": out[-600:]}
    finally:
        sh(["git", "-C", wt, "checkout", "--", "."])
    rc, out = sh([PY, demo], cwd=wt, env=env)
    rep["demo_reverted"] = {"exit": rc}
    confirmed = rep["demo_clean"]["exit"] == 0 and rep["demo_patched"]["exit"] != 0 and not rep["suite_with_patch"]["stable_missing"] and rep["demo_reverted"]["exit"] == 0
    rep["confirmed"] = confirmed
    if os.environ.get("VET_NO_CHECKS"):
        rep["checks"] = ["(checks run later by tools/rerun_seeded.py)"]       # the worktree part can run while /repo is in use
    else:
        rc, out = sh([PY, os.path.join(V, "tools", "try_mutant.py"), patch] + props, cwd=V, timeout=3600)
        rep["checks"] = out.strip().splitlines()
    print(json.dumps(rep, indent=1))
    if confirmed or "--keep-anyway" in a:
        dst = os.path.join(V, "seeded", f"{prop}-{keep_as}")
        os.makedirs(dst, exist_ok=True)
        shutil.copy(patch, os.path.join(dst, "patch.diff"))
        shutil.copy(demo, os.path.join(dst, "demo.py"))
        notes = open(os.path.join(src, "notes.md")).read() if os.path.exists(os.path.join(src, "notes.md")) else ""
        caught = [l for l in rep["checks"] if l.startswith("caught_by=")]
        meta = {"breaks_property": prop, "round": int(rnd), "origin": "independent sub-agent given only the property text and a scratch worktree" + (" (later rounds: also told what the earlier changes were, to produce different ones)" if rnd != "1" else ""),
                "needs_to_manifest": notes, "confirmed_by": {
                    "worktree": wt, "demo_on_clean_tree_exit": rep["demo_clean"]["exit"], "demo_on_patched_tree_exit": rep["demo_patched"]["exit"],
                    "demo_output_patched": rep["demo_patched"]["tail"], "pinned_suite_with_patch": rep["suite_with_patch"]},
                "checks_run": rep["checks"], "summary": caught[-1] if caught else None}
        json.dump(meta, open(os.path.join(dst, "meta.json"), "w"), indent=1)
        print("kept in", dst)
    return 0


if __name__ == "__main__":
    sys.exit(main())
