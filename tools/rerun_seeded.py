#!/venv/bin/python
"""re-runs every kept seeded change against its property's quick check (and extra checks named in meta['also']) and records the outcome in meta.json"""
import glob, json, os, subprocess, sys
V = os.path.dirname(os.path.dirname(os.path.abspath(__file__)))
FIRST = {  # outcome of the very first confrontation (before any strengthening), kept for the record
 "C10-a": "missed", "C10-b": "missed", "C08-a": "caught", "C08-b": "missed", "C02-a": "missed by C02 (caught by C10)", "C02-b": "missed",
 "C04-a": "missed", "C04-b": "caught", "C05-a": "caught", "C05-b": "caught", "C06-a": "caught", "C06-b": "missed", "C07-a": "caught", "C07-b": "missed by C07 (caught by C09)",
 "C09-a": "caught", "C09-b": "caught", "C19-a": "caught", "C19-b": "caught", "C20-a": "caught", "C20-b": "caught", "C15-a": "caught", "C15-b": "caught",
 "C16-a": "caught", "C16-b": "caught", "C01-a": "caught", "C01-b": "missed", "C03-a": "caught", "C03-b": "caught", "C11-a": "caught", "C11-b": "missed",
 "C12-a": "caught", "C12-b": "caught", "C13-a": "caught", "C13-b": "caught", "C14-a": "caught", "C14-b": "caught", "C17-a": "missed", "C17-b": "missed",
 "C18-a": "caught", "C18-b": "caught"}
FIRST.update({'C01-c': 'caught', 'C01-d': 'missed', 'C02-c': 'missed', 'C02-d': 'missed', 'C03-c': 'missed', 'C03-d': 'missed', 'C04-c': 'caught', 'C04-d': 'missed', 'C05-c': 'caught', 'C05-d': 'caught', 'C06-c': 'caught', 'C06-d': 'caught', 'C07-c': 'caught', 'C07-d': 'caught', 'C08-c': 'caught', 'C08-d': 'caught', 'C09-c': 'caught', 'C09-d': 'caught', 'C10-c': 'missed', 'C10-d': 'caught', 'C12-c': 'missed', 'C12-d': 'missed', 'C13-c': 'missed', 'C13-d': 'caught', 'C14-c': 'missed', 'C14-d': 'missed', 'C15-c': 'caught', 'C15-d': 'missed', 'C16-c': 'missed', 'C16-d': 'missed', 'C17-c': 'missed', 'C17-d': 'missed', 'C18-c': 'caught', 'C18-d': 'caught', 'C19-c': 'missed', 'C19-d': 'caught', 'C20-c': 'caught', 'C20-d': 'caught', 'C11-c': 'missed', 'C11-d': 'missed'})
FIRST.update({'C01-e': 'caught', 'C01-f': 'missed', 'C02-e': 'missed', 'C02-f': 'caught', 'C03-e': 'missed', 'C03-f': 'missed', 'C04-e': 'caught', 'C04-f': 'missed', 'C05-e': 'caught', 'C05-f': 'missed', 'C06-e': 'caught', 'C06-f': 'missed', 'C07-e': 'missed', 'C07-f': 'caught', 'C08-e': 'missed', 'C08-f': 'missed', 'C09-e': 'missed', 'C09-f': 'missed', 'C10-e': 'caught', 'C10-f': 'caught', 'C11-e': 'missed', 'C11-f': 'missed', 'C12-e': 'missed', 'C12-f': 'caught', 'C13-e': 'caught', 'C13-f': 'caught', 'C14-e': 'caught', 'C14-f': 'missed', 'C15-e': 'missed', 'C15-f': 'caught', 'C16-e': 'caught', 'C16-f': 'missed', 'C17-e': 'missed', 'C17-f': 'missed', 'C18-e': 'caught', 'C18-f': 'caught', 'C19-e': 'missed', 'C19-f': 'missed', 'C20-e': 'missed', 'C20-f': 'caught'})
FIRST.update({'C01-g': 'missed', 'C01-h': 'missed', 'C02-g': 'missed', 'C02-h': 'caught', 'C03-g': 'caught', 'C03-h': 'caught', 'C04-g': 'missed', 'C04-h': 'caught', 'C05-g': 'missed', 'C05-h': 'caught', 'C07-g': 'caught', 'C07-h': 'missed', 'C08-g': 'caught', 'C08-h': 'caught', 'C09-g': 'caught', 'C09-h': 'caught', 'C10-g': 'missed', 'C10-h': 'missed', 'C11-g': 'caught', 'C11-h': 'caught', 'C12-g': 'missed', 'C12-h': 'caught', 'C13-g': 'missed', 'C13-h': 'caught', 'C14-g': 'caught', 'C14-h': 'caught', 'C15-g': 'caught', 'C15-h': 'caught', 'C16-g': 'caught', 'C16-h': 'missed', 'C17-g': 'caught', 'C17-h': 'missed', 'C18-g': 'missed', 'C18-h': 'missed', 'C19-g': 'caught', 'C19-h': 'caught', 'C20-g': 'missed', 'C20-h': 'missed'})
FIRST.update({'C04-i': 'caught', 'C04-j': 'caught', 'C05-i': 'caught', 'C05-j': 'caught', 'C06-i': 'caught', 'C06-j': 'caught', 'C08-i': 'caught', 'C08-j': 'caught', 'C09-i': 'caught', 'C09-j': 'caught', 'C10-i': 'caught', 'C10-j': 'missed', 'C11-i': 'caught', 'C11-j': 'caught', 'C12-i': 'caught', 'C12-j': 'missed', 'C13-i': 'caught', 'C13-j': 'caught', 'C14-i': 'missed', 'C14-j': 'caught', 'C15-i': 'caught', 'C15-j': 'caught', 'C16-i': 'caught', 'C16-j': 'missed', 'C17-i': 'caught', 'C17-j': 'caught', 'C18-i': 'caught', 'C18-j': 'caught', 'C19-i': 'caught', 'C19-j': 'missed', 'C20-i': 'missed', 'C20-j': 'missed', 'C01-i': 'missed', 'C01-j': 'caught', 'C03-i': 'caught', 'C03-j': 'missed', 'C02-i': 'missed by C02 (caught by C05, C04)', 'C02-j': 'missed by C02 (caught by C05)', 'C07-i': 'caught', 'C07-j': 'caught', 'C06-g': 'caught', 'C06-h': 'caught'})
FIRST.update({'C02-k': 'missed by C02 (caught by C05)', 'C02-l': 'missed by C02 (caught by C01)', 'C04-k': 'caught', 'C04-l': 'missed', 'C06-k': 'missed by C06 (caught by C03)', 'C06-l': 'caught', 'C08-k': 'caught', 'C08-l': 'caught', 'C09-k': 'caught', 'C09-l': 'caught', 'C10-k': 'caught', 'C10-l': 'caught', 'C11-k': 'caught', 'C11-l': 'caught', 'C12-k': 'caught', 'C12-l': 'caught', 'C13-k': 'caught', 'C13-l': 'caught', 'C14-k': 'caught', 'C14-l': 'caught', 'C15-k': 'missed by C15 (caught by C14)', 'C15-l': 'caught', 'C16-k': 'caught', 'C16-l': 'caught', 'C17-k': 'caught', 'C17-l': 'caught', 'C18-k': 'caught', 'C18-l': 'caught', 'C19-k': 'caught', 'C19-l': 'caught', 'C20-k': 'caught', 'C20-l': 'caught', 'C01-k': 'caught', 'C01-l': 'missed by C01 (caught by C03, C06)', 'C03-k': 'caught', 'C03-l': 'caught', 'C05-k': 'caught', 'C05-l': 'caught', 'C07-k': 'caught', 'C07-l': 'caught'})
FIRST.update({'C04-m': 'caught', 'C04-n': 'caught', 'C05-m': 'caught', 'C05-n': 'caught', 'C06-m': 'missed', 'C06-n': 'missed', 'C07-m': 'caught', 'C07-n': 'missed', 'C08-m': 'caught', 'C08-n': 'caught', 'C09-m': 'caught', 'C09-n': 'caught', 'C10-m': 'missed', 'C10-n': 'caught', 'C11-m': 'caught', 'C11-n': 'caught', 'C12-m': 'caught', 'C12-n': 'caught', 'C13-m': 'caught', 'C13-n': 'caught', 'C14-m': 'caught', 'C14-n': 'missed', 'C15-m': 'caught', 'C15-n': 'missed by C15 (caught by C14)', 'C16-m': 'caught', 'C16-n': 'caught', 'C17-m': 'missed', 'C17-n': 'missed', 'C18-m': 'caught', 'C18-n': 'caught', 'C19-m': 'caught', 'C19-n': 'caught', 'C20-m': 'missed', 'C20-n': 'missed', 'C01-m': 'caught', 'C01-n': 'missed', 'C02-m': 'missed by C02 (caught by C01)', 'C02-n': 'missed by C02 (caught by C05)', 'C03-m': 'caught', 'C03-n': 'caught'})
TIER = {"C17-e": "thorough"}      # needs a model whose pickle exceeds 8 MiB: generated in the thorough tier only
ALSO = {"C02-a": ["C10"], "C07-b": ["C09"], "C02-b": ["C01"], "C01-d": ["C10"], "C02-d": ["C01"], "C02-c": ["C05"], "C14-d": ["C16"], "C01-h": ["C10"], "C02-i": ["C05", "C04"], "C02-j": ["C05"], "C02-k": ["C05"], "C02-l": ["C01"], "C06-k": ["C03"], "C15-k": ["C14"], "C01-l": ["C03", "C06"], "C15-n": ["C14"], "C02-m": ["C01"], "C02-n": ["C05"]}
sel = sys.argv[1:]
REPO_ARGS = []
if "--repo" in sel:                      # bulk re-run inside a scratch worktree (see try_mutant.py)
    i = sel.index("--repo")
    REPO_ARGS = sel[i:i + 2]
    del sel[i:i + 2]
for d in sorted(glob.glob(os.path.join(V, "seeded", "*"))):
    name = os.path.basename(d)
    if sel and name not in sel:
        continue
    mp = os.path.join(d, "meta.json")
    m = json.load(open(mp))
    props = [m["breaks_property"]] + ALSO.get(name, [])
    r = subprocess.run([os.path.join(V, "tools", "try_mutant.py"), os.path.join(d, "patch.diff")] + props + ["--tier", TIER.get(name, "quick")] + REPO_ARGS, cwd=V, capture_output=True, text=True)
    m["tier_used"] = TIER.get(name, "quick")
    lines = r.stdout.strip().splitlines()
    m["checks_run_final"] = lines
    m["caught_by_final"] = next((l for l in lines if l.startswith("caught_by=")), "")
    m["first_confrontation"] = FIRST.get(name, "?")
    json.dump(m, open(mp, "w"), indent=1)
    print(name, m["caught_by_final"], flush=True)
