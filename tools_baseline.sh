#!/bin/sh
# runs the pinned test-suite with the guard off and compares with BASELINE.json stable_pass
cd /repo || exit 2
unset PUAN_PYTHON_VERIF
OUT=${1:-/tmp/puan_baseline_$$.xml}
/venv/bin/python -m pytest -ra -q -p no:cacheprovider --timeout=900 --continue-on-collection-errors --junitxml=$OUT >/tmp/puan_baseline_$$.log 2>&1
/venv/bin/python - "$OUT" <<'PY'
import sys, json, xml.etree.ElementTree as ET
base=json.load(open('/root/.vp/BASELINE.json'))
stable=set(base['stable_pass'])
t=ET.parse(sys.argv[1]); ok=set(); bad=set()
for tc in t.iter('testcase'):
    name=f"{tc.get('classname')}::{tc.get('name')}"
    failed=any(c.tag in ('failure','error','skipped') for c in tc)
    (bad if failed else ok).add(name)
missing=sorted(stable-ok)
print(f"passed={len(ok)} failed={len(bad)} stable_missing={len(missing)}")
for m in missing: print("  MISSING", m)
sys.exit(1 if missing else 0)
PY
rc=$?
rm -f "$OUT" /tmp/puan_baseline_$$.log
exit $rc
